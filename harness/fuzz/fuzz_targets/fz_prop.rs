#![no_main]
use libfuzzer_sys::fuzz_target;

// One target for all properties: $VCHECK_PROP selects the property whose strategy decodes the
// bytes (proptest PassThrough RNG) and whose oracle judges the decoded case.
fuzz_target!(|data: &[u8]| {
    voracle::fuzz::entry(data);
});
