//! Coverage-guided stage: the fuzzer's bytes are the "randomness" (proptest PassThrough RNG) of the
//! very same strategies the random stage uses, and the very same oracle judges the decoded case.
//! A violation is written to $VCHECK_FUZZ_OUT and the process aborts (libFuzzer stops); known
//! findings are excluded by construction (the oracle attributes them), so campaigns continue.

use crate::core::*;
use crate::props::*;
use proptest::strategy::{Strategy, ValueTree};
use serde_json::json;
use std::cell::RefCell;
use std::collections::HashSet;

thread_local! {
    static ENTRY: RefCell<Option<Box<dyn FnMut(&[u8])>>> = RefCell::new(None);
}

fn hex(b: &[u8]) -> String {
    b.iter().map(|x| format!("{:02x}", x)).collect()
}

pub fn unhex(s: &str) -> Vec<u8> {
    (0..s.len() / 2).filter_map(|i| u8::from_str_radix(&s[2 * i..2 * i + 2], 16).ok()).collect()
}

fn make<P: Prop>() -> Box<dyn FnMut(&[u8])> {
    install_panic_hook();
    let known: HashSet<String> = load_known_findings().iter().map(|e| format!("{}:{}", e.property, e.key)).collect();
    let tier = Tier::Quick;
    let mk = P::stages(tier)
        .iter()
        .find_map(|s| match &s.kind {
            StageKind::Random { strategy, .. } => Some(*strategy),
            _ => None,
        })
        .expect("property has no random stage");
    let strategy = mk(tier);
    Box::new(move |data: &[u8]| {
        let mut runner = passthrough_runner(data);
        let tree = match strategy.new_tree(&mut runner) {
            Ok(t) => t,
            Err(_) => return,
        };
        let case = tree.current();
        let mut obs = Obs::default();
        let verdict = match eval::<P>(&case, &mut obs, false) {
            Ok(v) => v,
            Err(HarnessBug(b)) => {
                eprintln!("HARNESS-BUG {}", b);
                return;
            }
        };
        let fail = match verdict {
            Verdict::Fail(m) => Some(m),
            Verdict::Known(k) if !known.contains(&format!("{}:{}", P::ID, k)) => Some(format!("unlisted finding {}", k)),
            _ => None,
        };
        if let Some(m) = fail {
            let doc = json!({
                "property": P::ID,
                "stage": "fuzz",
                "message": m,
                "case": serde_json::to_value(&case).unwrap(),
                "bytes_hex": hex(data),
            });
            if let Ok(path) = std::env::var("VCHECK_FUZZ_OUT") {
                let _ = std::fs::write(&path, serde_json::to_string_pretty(&doc).unwrap());
            }
            eprintln!("FUZZ-VIOLATION property={} message={}", P::ID, m);
            std::process::abort();
        }
    })
}

macro_rules! pick {
    ($id:expr, $f:ident) => {
        match $id {
            "C01" => $f::<c01::C01>(),
            "C02" => $f::<c02::C02>(),
            "C03" => $f::<c03::C03>(),
            "C04" => $f::<c04::C04>(),
            "C05" => $f::<c05::C05>(),
            "C06" => $f::<c06::C06>(),
            "C07" => $f::<c07::C07>(),
            "C08" => $f::<c08::C08>(),
            "C09" => $f::<c09::C09>(),
            "C10" => $f::<c10::C10>(),
            "C11" => $f::<c11::C11>(),
            "C12" => $f::<c12::C12>(),
            "C13" => $f::<c13::C13>(),
            "C14" => $f::<c14::C14>(),
            "C15" => $f::<c15::C15>(),
            "C16" => $f::<c16::C16>(),
            "C17" => $f::<c17::C17>(),
            "C18" => $f::<c18::C18>(),
            "C19" => $f::<c19::C19>(),
            "C20" => $f::<c20::C20>(),
            other => panic!("unknown property {}", other),
        }
    };
}

/// libFuzzer entry (one process = one property, selected by $VCHECK_PROP)
pub fn entry(data: &[u8]) {
    ENTRY.with(|e| {
        let mut e = e.borrow_mut();
        if e.is_none() {
            let id = std::env::var("VCHECK_PROP").expect("VCHECK_PROP not set");
            *e = Some(pick!(id.as_str(), make));
        }
        (e.as_mut().unwrap())(data)
    })
}

/// Turns a fuzz artifact (bytes) into a shrunk, ordinary replay file.  Returns the exit code.
fn artifact<P: Prop>(path: &str, seed: u64) -> i32 {
    install_panic_hook();
    let text = match std::fs::read_to_string(path) {
        Ok(t) => t,
        Err(e) => {
            eprintln!("INCONCLUSIVE: cannot read {}: {}", path, e);
            return 2;
        }
    };
    let doc: serde_json::Value = match serde_json::from_str(&text) {
        Ok(d) => d,
        Err(e) => {
            eprintln!("INCONCLUSIVE: bad artifact: {}", e);
            return 2;
        }
    };
    let bytes = unhex(doc["bytes_hex"].as_str().unwrap_or(""));
    let known: HashSet<String> = load_known_findings().iter().map(|e| format!("{}:{}", e.property, e.key)).collect();
    let tier = Tier::Quick;
    let mk = P::stages(tier)
        .iter()
        .find_map(|s| match &s.kind {
            StageKind::Random { strategy, .. } => Some(*strategy),
            _ => None,
        })
        .unwrap();
    let strategy = mk(tier);
    let mut runner = passthrough_runner(&bytes);
    let mut tree = match strategy.new_tree(&mut runner) {
        Ok(t) => t,
        Err(_) => return 0,
    };
    let fails = |c: &P::Case| {
        let mut o = Obs::default();
        match eval::<P>(c, &mut o, false) {
            Ok(Verdict::Fail(_)) => true,
            Ok(Verdict::Known(k)) => !known.contains(&format!("{}:{}", P::ID, k)),
            _ => false,
        }
    };
    if !fails(&tree.current()) {
        println!("fuzz artifact {} does not reproduce outside the fuzzer (not reported)", path);
        return 0;
    }
    let min = shrink_tree(&mut tree, 4000, fails);
    let mut o = Obs::default();
    let msg = match eval::<P>(&min, &mut o, false) {
        Ok(Verdict::Fail(m)) => m,
        _ => doc["message"].as_str().unwrap_or("").to_string(),
    };
    let out = json!({"property": P::ID, "stage": "fuzz (libFuzzer, shrunk)", "seed": seed, "message": msg, "case": serde_json::to_value(&min).unwrap()});
    let dir = format!("{}/replays", verif_root());
    let _ = std::fs::create_dir_all(&dir);
    let rp = format!("{}/{}-fuzz-{}-{:016x}.json", dir, P::ID, seed, stable_hash(&min));
    std::fs::write(&rp, serde_json::to_string_pretty(&out).unwrap()).unwrap();
    println!("VIOLATION property={} replay={}", P::ID, rp);
    println!("  stage=fuzz message={}", msg);
    1
}

pub fn artifact_to_replay(id: &str, path: &str, seed: u64) -> i32 {
    macro_rules! call {
        ($t:ty) => {
            artifact::<$t>(path, seed)
        };
    }
    match id {
        "C01" => call!(c01::C01),
        "C02" => call!(c02::C02),
        "C03" => call!(c03::C03),
        "C04" => call!(c04::C04),
        "C05" => call!(c05::C05),
        "C06" => call!(c06::C06),
        "C07" => call!(c07::C07),
        "C08" => call!(c08::C08),
        "C09" => call!(c09::C09),
        "C10" => call!(c10::C10),
        "C11" => call!(c11::C11),
        "C12" => call!(c12::C12),
        "C13" => call!(c13::C13),
        "C14" => call!(c14::C14),
        "C15" => call!(c15::C15),
        "C16" => call!(c16::C16),
        "C17" => call!(c17::C17),
        "C18" => call!(c18::C18),
        "C19" => call!(c19::C19),
        "C20" => call!(c20::C20),
        _ => 2,
    }
}
