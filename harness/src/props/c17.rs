//! C17 — remapped slices are the original substrings and reconstruct both texts.

use super::common::*;
use crate::core::*;
use crate::gen::escape_bytes;
use crate::oracle::*;
use proptest::prelude::*;
use similar::utils::{self, TextDiffRemapper};
use similar::{ChangeTag, DiffableStr, TextDiff};

pub struct C17;

fn judge<'a, T: DiffableStr + ?Sized + 'a>(d: &'a TextDiff<'a, 'a, 'a, T>, old: &'a T, new: &'a T, obs: &mut Obs) -> Result<(), String> {
    let ob = old.as_bytes();
    let nb = new.as_bytes();
    let (old_tokens, new_tokens) = (d.old_slices(), d.new_slices());
    let r1 = TextDiffRemapper::from_text_diff(d, old, new);
    let r2 = TextDiffRemapper::new(old_tokens, new_tokens, old, new);
    let mut oc = vec![];
    let mut nc = vec![];
    // byte offset of every token
    let offs = |toks: &[&T]| {
        let mut v = vec![0usize];
        for t in toks {
            v.push(v.last().unwrap() + t.as_bytes().len());
        }
        v
    };
    let (oo, no) = (offs(old_tokens), offs(new_tokens));
    let mut multi = false;
    for op in d.ops() {
        let want: Vec<(ChangeTag, Vec<u8>, usize)> = {
            // slice-wise expansion over the token vectors, concatenated
            let (_, or, nr) = op.as_tag_tuple();
            op.iter_slices(old_tokens, new_tokens)
                .map(|(tag, toks): (ChangeTag, &[&T])| {
                    if toks.len() > 1 {
                        multi = true;
                    }
                    let bytes: Vec<u8> = toks.iter().flat_map(|t| t.as_bytes().iter().copied()).collect();
                    let off = if tag == ChangeTag::Insert { no[nr.start] } else { oo[or.start] };
                    (tag, bytes, off)
                })
                .collect()
        };
        for (which, rm) in [("from_text_diff", &r1), ("new", &r2)] {
            let got: Vec<(ChangeTag, &T)> = rm.iter_slices(op).collect();
            if got.len() != want.len() {
                return Err(format!("TextDiffRemapper::{}: {:?} yields {} slices, slice-wise expansion {}", which, op, got.len(), want.len()));
            }
            for ((gt, gs), (wt, wb, woff)) in got.iter().zip(want.iter()) {
                if gt != wt {
                    return Err(format!("TextDiffRemapper::{}: {:?}: tag {:?}, slice-wise expansion has {:?}", which, op, gt, wt));
                }
                let gb = gs.as_bytes();
                if gb != &wb[..] {
                    return Err(format!("TextDiffRemapper::{}: {:?}: slice {:?} != concatenation of the op's tokens {:?}", which, op, escape_bytes(gb), escape_bytes(wb)));
                }
                let base = if *gt == ChangeTag::Insert { nb } else { ob };
                if gb.is_empty() {
                    return Err(format!("TextDiffRemapper::{}: {:?}: empty slice", which, op));
                }
                if gb.as_ptr() as usize != base.as_ptr() as usize + woff {
                    return Err(format!("TextDiffRemapper::{}: {:?}: slice is not the substring of the original text at byte {}", which, op, woff));
                }
            }
        }
        for (tag, s) in r1.iter_slices(op) {
            if tag != ChangeTag::Insert {
                oc.extend_from_slice(s.as_bytes());
            }
            if tag != ChangeTag::Delete {
                nc.extend_from_slice(s.as_bytes());
            }
        }
        let (_, or, nr) = op.as_tag_tuple();
        if !or.is_empty() {
            match r1.slice_old(or.clone()) {
                Some(s) if s.as_bytes() == &ob[oo[or.start]..oo[or.end]] => {}
                o => return Err(format!("slice_old({:?}) = {:?}", or, o.map(|s| escape_bytes(s.as_bytes())))),
            }
        }
        if !nr.is_empty() {
            match r1.slice_new(nr.clone()) {
                Some(s) if s.as_bytes() == &nb[no[nr.start]..no[nr.end]] => {}
                o => return Err(format!("slice_new({:?}) = {:?}", nr, o.map(|s| escape_bytes(s.as_bytes())))),
            }
        }
    }
    if oc != ob {
        return Err(format!("non-Insert remapped slices concatenate to {:?}, old text is {:?}", escape_bytes(&oc), escape_bytes(ob)));
    }
    if nc != nb {
        return Err(format!("non-Delete remapped slices concatenate to {:?}, new text is {:?}", escape_bytes(&nc), escape_bytes(nb)));
    }
    obs.nontrivial = d.ops().len() >= 2 && multi;
    Ok(())
}

fn judge_helper<T: DiffableStr + ?Sized>(name: &str, out: Vec<(ChangeTag, &T)>, ob: &[u8], nb: &[u8]) -> Result<(), String> {
    let mut oc = vec![];
    let mut nc = vec![];
    for (tag, s) in &out {
        if s.as_bytes().is_empty() {
            return Err(format!("utils::{} returned an empty slice", name));
        }
        if *tag != ChangeTag::Insert {
            oc.extend_from_slice(s.as_bytes());
        }
        if *tag != ChangeTag::Delete {
            nc.extend_from_slice(s.as_bytes());
        }
    }
    if oc != ob || nc != nb {
        return Err(format!(
            "utils::{}: slices reconstruct ({:?}, {:?}) instead of ({:?}, {:?})",
            name, escape_bytes(&oc), escape_bytes(&nc), escape_bytes(ob), escape_bytes(nb)
        ));
    }
    Ok(())
}

fn helpers(c: &TextCase) -> Result<(), String> {
    let alg = alg_of(c.alg);
    let (ob, nb) = (&c.old.0[..], &c.new.0[..]);
    if c.use_bytes() {
        match c.tok % 5 {
            0 => judge_helper("diff_lines", utils::diff_lines(alg, ob, nb), ob, nb),
            1 => judge_helper("diff_words", utils::diff_words(alg, ob, nb), ob, nb),
            2 => judge_helper("diff_chars", utils::diff_chars(alg, ob, nb), ob, nb),
            3 => judge_helper("diff_unicode_words", utils::diff_unicode_words(alg, ob, nb), ob, nb),
            _ => judge_helper("diff_graphemes", utils::diff_graphemes(alg, ob, nb), ob, nb),
        }
    } else {
        let (o, n) = (c.old.as_str().unwrap(), c.new.as_str().unwrap());
        match c.tok % 5 {
            0 => judge_helper("diff_lines", utils::diff_lines(alg, o, n), ob, nb),
            1 => judge_helper("diff_words", utils::diff_words(alg, o, n), ob, nb),
            2 => judge_helper("diff_chars", utils::diff_chars(alg, o, n), ob, nb),
            3 => judge_helper("diff_unicode_words", utils::diff_unicode_words(alg, o, n), ob, nb),
            _ => judge_helper("diff_graphemes", utils::diff_graphemes(alg, o, n), ob, nb),
        }
    }
}

fn helper_slices(c: &TextCase) -> Result<(), String> {
    // utils::diff_slices over the raw bytes as items
    let out = utils::diff_slices(alg_of(c.alg), &c.old.0[..], &c.new.0[..]);
    let mut oc = vec![];
    let mut nc = vec![];
    for (tag, s) in &out {
        if s.is_empty() {
            return Err("utils::diff_slices returned an empty slice".into());
        }
        if *tag != ChangeTag::Insert {
            oc.extend_from_slice(s);
        }
        if *tag != ChangeTag::Delete {
            nc.extend_from_slice(s);
        }
    }
    if oc != c.old.0 || nc != c.new.0 {
        return Err("utils::diff_slices does not reconstruct the inputs".into());
    }
    Ok(())
}

pub fn check_case(c: &TextCase, obs: &mut Obs) -> Verdict {
    let cfg = config(c.alg);
    let what = format!("{} {} {}", alg_name(c.alg), TOKENIZERS[(c.tok % 5) as usize], if c.use_bytes() { "[u8]" } else { "str" });
    obs.class(TOKENIZERS[(c.tok % 5) as usize]);
    obs.class(alg_name(c.alg));
    obs.class(if c.use_bytes() { "[u8]" } else { "str" });
    obs.class_if(c.has_invalid(), "invalid UTF-8");
    obs.class_if(c.old.0.is_empty() && c.new.0.is_empty(), "both texts empty");
    let r = if c.use_bytes() {
        guard(|| {
            let d = diff_bytes(&cfg, c.tok, &c.old.0, &c.new.0);
            judge(&d, &c.old.0[..], &c.new.0[..], obs)
        })
    } else {
        guard(|| {
            let (o, n) = (c.old.as_str().unwrap(), c.new.as_str().unwrap());
            let d = diff_str(&cfg, c.tok, o, n);
            judge(&d, o, n, obs)
        })
    };
    match r {
        Ok(Ok(())) => {}
        Ok(Err(m)) => return Verdict::Fail(format!("{}: {}", what, m)),
        Err(p) => return Verdict::Fail(format!("{}: remapper: {}", what, p)),
    }
    match guard(|| helpers(c)) {
        Ok(Ok(())) => {}
        Ok(Err(m)) => return Verdict::Fail(format!("{}: {}", what, m)),
        Err(p) => return Verdict::Fail(format!("{}: one-call helper: {}", what, p)),
    }
    if c.old.0.len() + c.new.0.len() <= 60 {
        match guard(|| helper_slices(c)) {
            Ok(Ok(())) => {}
            Ok(Err(m)) => return Verdict::Fail(format!("{}: {}", what, m)),
            Err(p) => return Verdict::Fail(format!("{}: utils::diff_slices: {}", what, p)),
        }
    }
    Verdict::Pass
}

fn strat(tier: Tier) -> BoxedStrategy<TextCase> {
    prop_oneof![16 => text_case_mix(tier.pick(130, 200)), 4 => line_case(tier.pick(30, 100), true), 2 => big_line_case(tier.pick(130, 300)), 1 => distinct_line_case(tier.pick(300, 600))].boxed()
}

fn enum_small(_tier: Tier, f: &mut dyn FnMut(TextCase) -> bool) {
    // every (tokenizer, algorithm, str/bytes) on the empty / tiny corner cases
    let texts: [&[u8]; 6] = [b"", b"a", b"a b", b"\n", b"a\nb", "\u{e9}".as_bytes()];
    for a in texts {
        for b in texts {
            for tok in 0..5u8 {
                for alg in 0..3u8 {
                    for bytes in [false, true] {
                        let c = TextCase { old: crate::gen::BStr(a.to_vec()), new: crate::gen::BStr(b.to_vec()), tok, alg, bytes, opt: 0 };
                        if !f(c) {
                            return;
                        }
                    }
                }
            }
        }
    }
}

impl Prop for C17 {
    type Case = TextCase;
    const ID: &'static str = "C17";
    fn rule() -> String {
        "cases = (old text, new text, tokenizer, algorithm, str | [u8]) from the shared text mixture (see C04) plus an enumeration of 6x6 corner texts x 5 tokenizers x 3 algorithms x {str,[u8]} (covers (\"\",\"\") for every algorithm). Oracle: TextDiffRemapper::{from_text_diff,new}::iter_slices(op) has the tags of DiffOp::iter_slices over the token vectors, each slice equals the concatenation of the op's tokens and is the substring of the original at the right byte offset (pointer arithmetic); slice_old/slice_new agree; non-Insert slices concatenate to old, non-Delete to new; utils::diff_{lines,words,chars,unicode_words,graphemes,slices} reconstruct both inputs, return no empty slice and do not panic. Non-trivial = >= 2 ops and a multi-token slice; distinct = distinct serialized case.".into()
    }
    fn assumptions() -> Vec<String> {
        vec!["the original strings passed to the remapper are the ones the diff was built from".into()]
    }
    fn stages(tier: Tier) -> Vec<Stage<TextCase>> {
        vec![
            Stage {
                name: "enum-corners",
                kind: StageKind::Enumerate { scope: "6x6 corner texts x 5 tokenizers x 3 algorithms x {str,[u8]}".into(), exhaustive: true, gen: enum_small },
            },
            Stage {
                name: "huge",
                kind: StageKind::Enumerate { scope: "2 fixed line texts with 70 000 distinct lines (token ids beyond 16 bits)".into(), exhaustive: true, gen: |_t, f| {
                    for c in huge_line_cases() {
                        if !f(c) {
                            return;
                        }
                    }
                } },
            },
            Stage { name: "random", kind: StageKind::Random { strategy: strat, cases: tier.pick(400_000, 2_000_000) } },
        ]
    }
    fn check(case: &TextCase, obs: &mut Obs) -> Verdict {
        check_case(case, obs)
    }
}
