//! C17 — remapped slices are the original substrings and reconstruct both texts.

use super::common::*;
use crate::core::*;
use crate::gen::escape_bytes;
use crate::oracle::*;
use proptest::prelude::*;
use similar::utils::{self, TextDiffRemapper};
use similar::{ChangeTag, DiffableStr, TextDiff};

pub struct C17;

fn judge<'a, T: DiffableStr + ?Sized + 'a>(d: &'a TextDiff<'a, 'a, 'a, T>, old: &'a T, new: &'a T, allow_empty: bool, obs: &mut Obs) -> Result<(), String> {
    let ob = old.as_bytes();
    let nb = new.as_bytes();
    let (old_tokens, new_tokens) = (d.old_slices(), d.new_slices());
    let r1 = TextDiffRemapper::from_text_diff(d, old, new);
    let r2 = TextDiffRemapper::new(old_tokens, new_tokens, old, new);
    let mut oc = vec![];
    let mut nc = vec![];
    // byte offset of every token
    let offs = |toks: &[&T]| {
        let mut v = vec![0usize];
        for t in toks {
            v.push(v.last().unwrap() + t.as_bytes().len());
        }
        v
    };
    let (oo, no) = (offs(old_tokens), offs(new_tokens));
    let mut multi = false;
    for op in d.ops() {
        let want: Vec<(ChangeTag, Vec<u8>, usize)> = {
            // slice-wise expansion over the token vectors, concatenated
            let (_, or, nr) = op.as_tag_tuple();
            op.iter_slices(old_tokens, new_tokens)
                .map(|(tag, toks): (ChangeTag, &[&T])| {
                    if toks.len() > 1 {
                        multi = true;
                    }
                    let bytes: Vec<u8> = toks.iter().flat_map(|t| t.as_bytes().iter().copied()).collect();
                    let off = if tag == ChangeTag::Insert { no[nr.start] } else { oo[or.start] };
                    (tag, bytes, off)
                })
                .collect()
        };
        for (which, rm) in [("from_text_diff", &r1), ("new", &r2)] {
            let got: Vec<(ChangeTag, &T)> = rm.iter_slices(op).collect();
            if got.len() != want.len() {
                return Err(format!("TextDiffRemapper::{}: {:?} yields {} slices, slice-wise expansion {}", which, op, got.len(), want.len()));
            }
            for ((gt, gs), (wt, wb, woff)) in got.iter().zip(want.iter()) {
                if gt != wt {
                    return Err(format!("TextDiffRemapper::{}: {:?}: tag {:?}, slice-wise expansion has {:?}", which, op, gt, wt));
                }
                let gb = gs.as_bytes();
                if gb != &wb[..] {
                    return Err(format!("TextDiffRemapper::{}: {:?}: slice {:?} != concatenation of the op's tokens {:?}", which, op, escape_bytes(gb), escape_bytes(wb)));
                }
                let base = if *gt == ChangeTag::Insert { nb } else { ob };
                if gb.is_empty() && !allow_empty {
                    return Err(format!("TextDiffRemapper::{}: {:?}: empty slice", which, op));
                }
                if !gb.is_empty() && gb.as_ptr() as usize != base.as_ptr() as usize + woff {
                    return Err(format!("TextDiffRemapper::{}: {:?}: slice is not the substring of the original text at byte {}", which, op, woff));
                }
            }
        }
        for (tag, s) in r1.iter_slices(op) {
            if tag != ChangeTag::Insert {
                oc.extend_from_slice(s.as_bytes());
            }
            if tag != ChangeTag::Delete {
                nc.extend_from_slice(s.as_bytes());
            }
        }
        let (_, or, nr) = op.as_tag_tuple();
        if !or.is_empty() {
            match r1.slice_old(or.clone()) {
                Some(s) if s.as_bytes() == &ob[oo[or.start]..oo[or.end]] => {}
                o => return Err(format!("slice_old({:?}) = {:?}", or, o.map(|s| escape_bytes(s.as_bytes())))),
            }
        }
        if !nr.is_empty() {
            match r1.slice_new(nr.clone()) {
                Some(s) if s.as_bytes() == &nb[no[nr.start]..no[nr.end]] => {}
                o => return Err(format!("slice_new({:?}) = {:?}", nr, o.map(|s| escape_bytes(s.as_bytes())))),
            }
        }
    }
    // slice_old / slice_new for token ranges that are not an op's range: inside an op, across ops
    {
        let (nt_o, nt_n) = (old_tokens.len(), new_tokens.len());
        let picks = |n: usize| -> Vec<(usize, usize)> {
            if n == 0 {
                return vec![];
            }
            vec![(0, n), (0, 1), (n - 1, n), (n / 3, (n / 3 + 2).min(n)), (n / 2, n), (1.min(n - 1), n)]
        };
        for (a, b) in picks(nt_o) {
            if a < b {
                match r1.slice_old(a..b) {
                    Some(s) if s.as_bytes() == &ob[oo[a]..oo[b]] => {}
                    o => return Err(format!("slice_old({}..{}) = {:?}, the tokens {}..{} concatenate to {:?}", a, b, o.map(|s| escape_bytes(s.as_bytes())), a, b, escape_bytes(&ob[oo[a]..oo[b]]))),
                }
            }
        }
        for (a, b) in picks(nt_n) {
            if a < b {
                match r2.slice_new(a..b) {
                    Some(s) if s.as_bytes() == &nb[no[a]..no[b]] => {}
                    o => return Err(format!("slice_new({}..{}) = {:?}, the tokens {}..{} concatenate to {:?}", a, b, o.map(|s| escape_bytes(s.as_bytes())), a, b, escape_bytes(&nb[no[a]..no[b]]))),
                }
            }
        }
    }
    // the remapper is a lookup, not a cursor: asking again in reverse op order gives the same slices
    for op in d.ops().iter().rev() {
        let a: Vec<(ChangeTag, &[u8])> = r1.iter_slices(op).map(|(t, s)| (t, s.as_bytes())).collect();
        let b: Vec<(ChangeTag, &[u8])> = r2.iter_slices(op).map(|(t, s)| (t, s.as_bytes())).collect();
        let w: Vec<(ChangeTag, Vec<u8>)> = op
            .iter_slices(old_tokens, new_tokens)
            .map(|(tag, toks): (ChangeTag, &[&T])| (tag, toks.iter().flat_map(|t| t.as_bytes().iter().copied()).collect()))
            .collect();
        if a != b || a.len() != w.len() || a.iter().zip(w.iter()).any(|(x, y)| x.0 != y.0 || x.1 != &y.1[..]) {
            return Err(format!("TextDiffRemapper::iter_slices({:?}) asked again in reverse op order gives {:?} / {:?}", op, a.iter().map(|(t, s)| (*t, escape_bytes(s))).collect::<Vec<_>>(), b.iter().map(|(t, s)| (*t, escape_bytes(s))).collect::<Vec<_>>()));
        }
    }
    if oc != ob {
        return Err(format!("non-Insert remapped slices concatenate to {:?}, old text is {:?}", escape_bytes(&oc), escape_bytes(ob)));
    }
    if nc != nb {
        return Err(format!("non-Delete remapped slices concatenate to {:?}, new text is {:?}", escape_bytes(&nc), escape_bytes(nb)));
    }
    obs.nontrivial = d.ops().len() >= 2 && multi;
    Ok(())
}

/// The remapper only needs the texts the diff was built from, not the very objects: given equal
/// COPIES of the two strings (other addresses) it returns the same slices, as substrings of the copies.
fn copies<'a, 'c, T: DiffableStr + ?Sized + 'a>(d: &TextDiff<'a, 'a, 'a, T>, old: &'a T, new: &'a T, co: &'c T, cn: &'c T) -> Result<(), String>
where
    'a: 'c,
{
    let r0 = TextDiffRemapper::from_text_diff(d, old, new);
    let r1 = TextDiffRemapper::from_text_diff(d, co, cn);
    let within = |s: &[u8], buf: &[u8]| s.is_empty() || (s.as_ptr() as usize >= buf.as_ptr() as usize && s.as_ptr() as usize + s.len() <= buf.as_ptr() as usize + buf.len());
    for op in d.ops() {
        let a: Vec<(ChangeTag, &T)> = r0.iter_slices(op).collect();
        let b: Vec<(ChangeTag, &T)> = r1.iter_slices(op).collect();
        if a.len() != b.len() {
            return Err(format!("TextDiffRemapper::from_text_diff over equal copies of the texts: {:?} yields {} slices, over the originals {}", op, b.len(), a.len()));
        }
        for ((ta, sa), (tb, sb)) in a.iter().zip(b.iter()) {
            if ta != tb || sa.as_bytes() != sb.as_bytes() {
                return Err(format!("TextDiffRemapper::from_text_diff over equal copies of the texts: {:?} yields ({:?}, {:?}), over the originals ({:?}, {:?})", op, tb, escape_bytes(sb.as_bytes()), ta, escape_bytes(sa.as_bytes())));
            }
            let buf = if *tb == ChangeTag::Insert { cn.as_bytes() } else { co.as_bytes() };
            if !within(sb.as_bytes(), buf) {
                return Err(format!("TextDiffRemapper::from_text_diff over equal copies of the texts: {:?}: the slice {:?} does not lie in the copy it was given", op, escape_bytes(sb.as_bytes())));
            }
        }
    }
    Ok(())
}

fn judge_helper<T: DiffableStr + ?Sized>(name: &str, out: Vec<(ChangeTag, &T)>, ob: &[u8], nb: &[u8]) -> Result<(), String> {
    let mut oc = vec![];
    let mut nc = vec![];
    for (tag, s) in &out {
        if s.as_bytes().is_empty() {
            return Err(format!("utils::{} returned an empty slice", name));
        }
        if *tag != ChangeTag::Insert {
            oc.extend_from_slice(s.as_bytes());
        }
        if *tag != ChangeTag::Delete {
            nc.extend_from_slice(s.as_bytes());
        }
    }
    if oc != ob || nc != nb {
        return Err(format!(
            "utils::{}: slices reconstruct ({:?}, {:?}) instead of ({:?}, {:?})",
            name, escape_bytes(&oc), escape_bytes(&nc), escape_bytes(ob), escape_bytes(nb)
        ));
    }
    Ok(())
}

/// the remapped expansion of the text diff with the configured algorithm (what a "shortcut" stands for)
fn long_way<'a, T: DiffableStr + ?Sized + 'a>(d: &TextDiff<'a, 'a, 'a, T>, old: &'a T, new: &'a T, per_line: bool) -> Vec<(ChangeTag, Vec<u8>)> {
    if per_line {
        // utils::diff_lines is documented to return one change tag per line
        return d.iter_all_changes().map(|c| (c.tag(), c.value().as_bytes().to_vec())).collect();
    }
    let r = TextDiffRemapper::from_text_diff(d, old, new);
    d.ops().iter().flat_map(|op| r.iter_slices(op).map(|(t, s)| (t, s.as_bytes().to_vec())).collect::<Vec<_>>()).collect()
}

fn same_as_long_way<T: DiffableStr + ?Sized>(name: &str, out: &[(ChangeTag, &T)], want: Vec<(ChangeTag, Vec<u8>)>) -> Result<(), String> {
    let got: Vec<(ChangeTag, Vec<u8>)> = out.iter().map(|(t, s)| (*t, s.as_bytes().to_vec())).collect();
    if got != want {
        return Err(format!(
            "utils::{} returns {:?}, the text diff with the same algorithm expanded through TextDiffRemapper gives {:?}",
            name,
            got.iter().map(|(t, s)| (*t, escape_bytes(s))).collect::<Vec<_>>(),
            want.iter().map(|(t, s)| (*t, escape_bytes(s))).collect::<Vec<_>>()
        ));
    }
    Ok(())
}

fn helpers(c: &TextCase) -> Result<(), String> {
    let alg = alg_of(c.alg);
    let (ob, nb) = (&c.old.0[..], &c.new.0[..]);
    // differential: a one-call helper is a shortcut for the text diff + remapper
    {
        let cfg = config(c.alg);
        let name = ["diff_lines", "diff_words", "diff_chars", "diff_unicode_words", "diff_graphemes"][(c.tok % 5) as usize];
        if c.use_bytes() {
            let d = diff_bytes(&cfg, c.tok, ob, nb);
            let want = long_way(&d, ob, nb, c.tok % 5 == 0);
            let out = match c.tok % 5 {
                0 => utils::diff_lines(alg, ob, nb),
                1 => utils::diff_words(alg, ob, nb),
                2 => utils::diff_chars(alg, ob, nb),
                3 => utils::diff_unicode_words(alg, ob, nb),
                _ => utils::diff_graphemes(alg, ob, nb),
            };
            same_as_long_way(name, &out, want)?;
        } else {
            let (o, n) = (c.old.as_str().unwrap(), c.new.as_str().unwrap());
            let d = diff_str(&cfg, c.tok, o, n);
            let want = long_way(&d, o, n, c.tok % 5 == 0);
            let out = match c.tok % 5 {
                0 => utils::diff_lines(alg, o, n),
                1 => utils::diff_words(alg, o, n),
                2 => utils::diff_chars(alg, o, n),
                3 => utils::diff_unicode_words(alg, o, n),
                _ => utils::diff_graphemes(alg, o, n),
            };
            same_as_long_way(name, &out, want)?;
        }
    }
    if c.use_bytes() {
        match c.tok % 5 {
            0 => judge_helper("diff_lines", utils::diff_lines(alg, ob, nb), ob, nb),
            1 => judge_helper("diff_words", utils::diff_words(alg, ob, nb), ob, nb),
            2 => judge_helper("diff_chars", utils::diff_chars(alg, ob, nb), ob, nb),
            3 => judge_helper("diff_unicode_words", utils::diff_unicode_words(alg, ob, nb), ob, nb),
            _ => judge_helper("diff_graphemes", utils::diff_graphemes(alg, ob, nb), ob, nb),
        }
    } else {
        let (o, n) = (c.old.as_str().unwrap(), c.new.as_str().unwrap());
        match c.tok % 5 {
            0 => judge_helper("diff_lines", utils::diff_lines(alg, o, n), ob, nb),
            1 => judge_helper("diff_words", utils::diff_words(alg, o, n), ob, nb),
            2 => judge_helper("diff_chars", utils::diff_chars(alg, o, n), ob, nb),
            3 => judge_helper("diff_unicode_words", utils::diff_unicode_words(alg, o, n), ob, nb),
            _ => judge_helper("diff_graphemes", utils::diff_graphemes(alg, o, n), ob, nb),
        }
    }
}

/// an item whose equality (and hash, order) looks only at `key`; `payload` tells occurrences apart
#[derive(Clone, Copy, Debug)]
struct Rec {
    key: u8,
    payload: u32,
}
impl PartialEq for Rec {
    fn eq(&self, o: &Rec) -> bool {
        self.key == o.key
    }
}
impl Eq for Rec {}
impl std::hash::Hash for Rec {
    fn hash<H: std::hash::Hasher>(&self, h: &mut H) {
        self.key.hash(h)
    }
}
impl PartialOrd for Rec {
    fn partial_cmp(&self, o: &Rec) -> Option<std::cmp::Ordering> {
        Some(self.cmp(o))
    }
}
impl Ord for Rec {
    fn cmp(&self, o: &Rec) -> std::cmp::Ordering {
        self.key.cmp(&o.key)
    }
}

fn token_slices(c: &TextCase) -> Result<(), String> {
    let toks = |b: &[u8]| -> Vec<Vec<u8>> {
        let v: Vec<&[u8]> = match c.tok % 5 {
            0 => b.tokenize_lines(),
            1 => b.tokenize_words(),
            2 => b.tokenize_chars(),
            3 => b.tokenize_unicode_words(),
            _ => b.tokenize_graphemes(),
        };
        v.into_iter().map(|t| t.to_vec()).collect()
    };
    let (old, new) = (toks(&c.old.0), toks(&c.new.0));
    if old.len() + new.len() > 1500 {
        return Ok(());
    }
    let out = utils::diff_slices(alg_of(c.alg), &old[..], &new[..]);
    let (mut oi, mut ni) = (0usize, 0usize);
    for (tag, s) in &out {
        if s.is_empty() {
            return Err("utils::diff_slices over owned tokens returned an empty slice".into());
        }
        let (base, off) = if *tag == ChangeTag::Insert { (&new[..], ni) } else { (&old[..], oi) };
        if off + s.len() > base.len() || s.as_ptr() as usize != base[off..].as_ptr() as usize {
            return Err(format!("utils::diff_slices over {} / {} owned tokens: a {:?} slice of {} items is not the sub-slice of the {} input at item {}", old.len(), new.len(), tag, s.len(), if *tag == ChangeTag::Insert { "new" } else { "old" }, off));
        }
        if *tag != ChangeTag::Insert {
            oi += s.len();
        }
        if *tag != ChangeTag::Delete {
            ni += s.len();
        }
    }
    if oi != old.len() || ni != new.len() {
        return Err(format!("utils::diff_slices over {} / {} owned tokens covers {} / {} items", old.len(), new.len(), oi, ni));
    }
    Ok(())
}

fn helper_slices(c: &TextCase) -> Result<(), String> {
    // utils::diff_slices over the raw bytes as items: every returned slice is a sub-slice of the
    // proper input at the position the walk has reached (pointer arithmetic)
    let (old, new) = (&c.old.0[..], &c.new.0[..]);
    let out = utils::diff_slices(alg_of(c.alg), old, new);
    let (mut oi, mut ni) = (0usize, 0usize);
    for (tag, s) in &out {
        if s.is_empty() {
            return Err("utils::diff_slices returned an empty slice".into());
        }
        let (base, off) = if *tag == ChangeTag::Insert { (new, ni) } else { (old, oi) };
        if off + s.len() > base.len() || s.as_ptr() as usize != base.as_ptr() as usize + off {
            return Err(format!("utils::diff_slices: the {:?} slice {:?} is not the sub-slice of the {} input at item {}", tag, escape_bytes(s), if *tag == ChangeTag::Insert { "new" } else { "old" }, off));
        }
        if *tag != ChangeTag::Insert {
            oi += s.len();
        }
        if *tag != ChangeTag::Delete {
            ni += s.len();
        }
    }
    if oi != old.len() || ni != new.len() {
        return Err("utils::diff_slices does not reconstruct the inputs".into());
    }
    // the same over record items that compare by key only: the items handed back must be the very
    // items of old (non-Insert) / new (Insert), which the payloads tell apart
    let ro: Vec<Rec> = old.iter().enumerate().map(|(i, b)| Rec { key: *b, payload: i as u32 }).collect();
    let rn: Vec<Rec> = new.iter().enumerate().map(|(i, b)| Rec { key: *b, payload: 1_000_000 + i as u32 }).collect();
    let out = utils::diff_slices(alg_of(c.alg), &ro[..], &rn[..]);
    let mut po = vec![];
    let mut pn = vec![];
    for (tag, s) in &out {
        for r in s.iter() {
            if *tag != ChangeTag::Insert {
                po.push(r.payload);
            }
            if *tag == ChangeTag::Insert {
                pn.push(r.payload);
            }
        }
    }
    let want_o: Vec<u32> = (0..old.len() as u32).collect();
    if po != want_o {
        return Err(format!("utils::diff_slices over items compared by key: the non-Insert slices hand back items with payloads {:?}, the old items are {:?}", po, want_o));
    }
    if pn.iter().any(|p| *p < 1_000_000) {
        return Err("utils::diff_slices over items compared by key: an Insert slice hands back an old item".into());
    }
    Ok(())
}

/// a caller-defined tokenization: the text cut at pseudo-randomly chosen (char) boundaries, with an
/// occasional EMPTY token; `seed` makes it a function of the case
fn custom_cuts(len: usize, is_boundary: &dyn Fn(usize) -> bool, seed: u64) -> Vec<(usize, usize)> {
    let mut x = seed.wrapping_mul(0x9E37_79B9_7F4A_7C15) | 1;
    let mut next = move || {
        x ^= x >> 12;
        x ^= x << 25;
        x ^= x >> 27;
        (x.wrapping_mul(0x2545_F491_4F6C_DD1D) >> 40) as u32
    };
    let mut out = vec![];
    let mut start = 0;
    for i in 1..=len {
        if i == len || (is_boundary(i) && next() % 3 == 0) {
            out.push((start, i));
            start = i;
            if next() % 6 == 0 {
                out.push((i, i));
            }
        }
    }
    if len == 0 && seed % 2 == 0 {
        out.push((0, 0));
    }
    out
}

fn check_custom(c: &TextCase, obs: &mut Obs) -> Verdict {
    let cfg = config(c.alg);
    let seed = c.old.0.len() as u64 * 31 + c.new.0.len() as u64 * 17 + c.tok as u64;
    obs.class("caller-defined tokenization (with empty tokens) through diff_slices + TextDiffRemapper");
    let r = if c.use_bytes() {
        let (o, n) = (&c.old.0[..], &c.new.0[..]);
        let to: Vec<&[u8]> = custom_cuts(o.len(), &|_| true, seed).into_iter().map(|(a, b)| &o[a..b]).collect();
        let tn: Vec<&[u8]> = custom_cuts(n.len(), &|_| true, seed + 1).into_iter().map(|(a, b)| &n[a..b]).collect();
        guard(|| {
            let d = cfg.diff_slices(&to, &tn);
            judge(&d, o, n, true, obs)
        })
    } else {
        let (o, n) = (c.old.as_str().unwrap(), c.new.as_str().unwrap());
        let to: Vec<&str> = custom_cuts(o.len(), &|i| o.is_char_boundary(i), seed).into_iter().map(|(a, b)| &o[a..b]).collect();
        let tn: Vec<&str> = custom_cuts(n.len(), &|i| n.is_char_boundary(i), seed + 1).into_iter().map(|(a, b)| &n[a..b]).collect();
        guard(|| {
            let d = cfg.diff_slices(&to, &tn);
            judge(&d, o, n, true, obs)
        })
    };
    match r {
        Ok(Ok(())) => Verdict::Pass,
        Ok(Err(m)) => Verdict::Fail(format!("{} custom tokenization of {:?} / {:?}: {}", alg_name(c.alg), c.old, c.new, m)),
        Err(p) => Verdict::Fail(format!("{} custom tokenization of {:?} / {:?}: remapper: {}", alg_name(c.alg), c.old, c.new, p)),
    }
}

pub fn check_case(c: &TextCase, obs: &mut Obs) -> Verdict {
    if c.opt % 8 == 6 {
        return check_custom(c, obs);
    }
    let mut cfg = config(c.alg);
    let (vk, under_deadline) = deadline_dimension(c, &mut cfg);
    obs.class_if(under_deadline, "text diff made under a deadline that runs out (passed before the start / at one of the first probes)");
    let what = format!("{} {} {}", alg_name(c.alg), TOKENIZERS[(c.tok % 5) as usize], if c.use_bytes() { "[u8]" } else { "str" });
    obs.class(TOKENIZERS[(c.tok % 5) as usize]);
    obs.class(alg_name(c.alg));
    obs.class(if c.use_bytes() { "[u8]" } else { "str" });
    obs.class_if(c.has_invalid(), "invalid UTF-8");
    obs.class_if(c.old.0.is_empty() && c.new.0.is_empty(), "both texts empty");
    let r = if c.use_bytes() {
        guard(|| {
            similar::verif::clock::install(vk);
            let d = diff_bytes(&cfg, c.tok, &c.old.0, &c.new.0);
            similar::verif::clock::install(None);
            exercise(&d, c.opt);
            judge(&d, &c.old.0[..], &c.new.0[..], false, obs)?;
            let (co, cn) = (c.old.0.clone(), c.new.0.clone());
            copies(&d, &c.old.0[..], &c.new.0[..], &co[..], &cn[..])
        })
    } else {
        guard(|| {
            let (o, n) = (c.old.as_str().unwrap(), c.new.as_str().unwrap());
            similar::verif::clock::install(vk);
            let d = diff_str(&cfg, c.tok, o, n);
            similar::verif::clock::install(None);
            exercise(&d, c.opt);
            judge(&d, o, n, false, obs)?;
            let (co, cn) = (o.to_string(), n.to_string());
            copies(&d, o, n, co.as_str(), cn.as_str())
        })
    };
    similar::verif::clock::install(None);
    match r {
        Ok(Ok(())) => {}
        Ok(Err(m)) => return Verdict::Fail(format!("{}: {}", what, m)),
        Err(p) => return Verdict::Fail(format!("{}: remapper: {}", what, p)),
    }
    // utils::diff_slices over the TOKENS of the two texts as owned Strings / Vec<u8> (items wider
    // than a machine word; more than 100 of them for the larger texts, the two sides of different
    // length): every slice handed back is the sub-slice of the proper input at the walk position
    match guard(|| token_slices(c)) {
        Ok(Ok(())) => {}
        Ok(Err(m)) => return Verdict::Fail(format!("{}: {}", what, m)),
        Err(p) => return Verdict::Fail(format!("{}: utils::diff_slices over owned tokens: {}", what, p)),
    }
    match guard(|| helpers(c)) {
        Ok(Ok(())) => {}
        Ok(Err(m)) => return Verdict::Fail(format!("{}: {}", what, m)),
        Err(p) => return Verdict::Fail(format!("{}: one-call helper: {}", what, p)),
    }
    if c.old.0.len() + c.new.0.len() <= 60 {
        match guard(|| helper_slices(c)) {
            Ok(Ok(())) => {}
            Ok(Err(m)) => return Verdict::Fail(format!("{}: {}", what, m)),
            Err(p) => return Verdict::Fail(format!("{}: utils::diff_slices: {}", what, p)),
        }
    }
    Verdict::Pass
}

fn strat(tier: Tier) -> BoxedStrategy<TextCase> {
    prop_oneof![16 => text_case_mix(tier.pick(130, 200)), 4 => line_case(tier.pick(30, 100), true), 2 => big_line_case(tier.pick(130, 300)), 1 => distinct_line_case(tier.pick(300, 600))].boxed()
}

fn enum_small(_tier: Tier, f: &mut dyn FnMut(TextCase) -> bool) {
    // every (tokenizer, algorithm, str/bytes) on the empty / tiny corner cases
    let texts: [&[u8]; 6] = [b"", b"a", b"a b", b"\n", b"a\nb", "\u{e9}".as_bytes()];
    for a in texts {
        for b in texts {
            for tok in 0..5u8 {
                for alg in 0..3u8 {
                    for bytes in [false, true] {
                        let c = TextCase { old: crate::gen::BStr(a.to_vec()), new: crate::gen::BStr(b.to_vec()), tok, alg, bytes, opt: 0 };
                        if !f(c) {
                            return;
                        }
                    }
                }
            }
        }
    }
}

impl Prop for C17 {
    type Case = TextCase;
    const ID: &'static str = "C17";
    fn rule() -> String {
        "1 case in 6 builds its TextDiff under a deadline that has passed or runs out at one of the first probes (virtual clock); cases = (old text, new text, tokenizer, algorithm, str | [u8]) from the shared text mixture (see C04) plus an enumeration of 6x6 corner texts x 5 tokenizers x 3 algorithms x {str,[u8]} (covers (\"\",\"\") for every algorithm). Oracle: TextDiffRemapper::{from_text_diff,new}::iter_slices(op) has the tags of DiffOp::iter_slices over the token vectors, each slice equals the concatenation of the op's tokens and is the substring of the original at the right byte offset (pointer arithmetic); slice_old/slice_new agree; a remapper given equal COPIES of the two texts (other addresses) returns the same slices, lying in the copies; non-Insert slices concatenate to old, non-Delete to new; utils::diff_{lines,words,chars,unicode_words,graphemes,slices} reconstruct both inputs, return no empty slice, do not panic and equal the text diff with the same algorithm expanded through TextDiffRemapper (diff_lines: one change per line, as documented); every utils::diff_slices slice is the sub-slice of the proper input at the walk position (pointer arithmetic; over the raw bytes of small texts and over the owned tokens of every text, i.e. also more than 100 wide items), also over record items that compare by key only (payloads tell old from new items). 1 random case in 8 uses a CALLER-DEFINED tokenization (text cut at pseudo-random char boundaries, occasional empty tokens) through TextDiffConfig::diff_slices + both remapper constructors (the no-empty-slice clause is not applied there). Non-trivial = >= 2 ops and a multi-token slice; distinct = distinct serialized case.".into()
    }
    fn assumptions() -> Vec<String> {
        vec!["the original strings passed to the remapper are the ones the diff was built from".into()]
    }
    fn stages(tier: Tier) -> Vec<Stage<TextCase>> {
        vec![
            Stage {
                name: "enum-corners",
                kind: StageKind::Enumerate { scope: "6x6 corner texts x 5 tokenizers x 3 algorithms x {str,[u8]}".into(), exhaustive: true, gen: enum_small },
            },
            Stage {
                name: "huge",
                kind: StageKind::Enumerate { scope: "texts of exactly N / N+1 tokens for N at and around the powers of two from 64 to 8192 (lines, words, chars; every algorithm, LCS up to 1025 tokens); 5 fixed line texts: 2 with 70 000 distinct lines (token ids beyond 16 bits), and per algorithm 1100 x 1100 unrelated distinct lines between a common head and tail".into(), exhaustive: true, gen: |_t, f| {
                    for c in huge_line_cases() {
                        if !f(c) {
                            return;
                        }
                    }
                    for c in pow2_text_cases() {
                        if !f(c) {
                            return;
                        }
                    }
                } },
            },
            Stage { name: "random", kind: StageKind::Random { strategy: strat, cases: tier.pick(400_000, 2_000_000) } },
        ]
    }
    fn check(case: &TextCase, obs: &mut Obs) -> Verdict {
        check_case(case, obs)
    }
}
