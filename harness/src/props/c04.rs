//! C04 — text diffs reconstruct both inputs byte-for-byte for every tokenizer.

use super::common::*;
use crate::core::*;
use crate::oracle::*;
use proptest::prelude::*;
use similar::{ChangeTag, DiffableStr, TextDiff};

pub struct C04;

fn judge<'a, T: DiffableStr + ?Sized + 'a>(d: &'a TextDiff<'a, 'a, 'a, T>, old: &[u8], new: &[u8], obs: &mut Obs) -> Result<(), String> {
    let mut o = vec![];
    let mut n = vec![];
    let (mut oi, mut ni) = (0usize, 0usize);
    let (mut eqs, mut chg) = (0, 0);
    for (i, ch) in d.iter_all_changes().enumerate() {
        let v = ch.value().as_bytes();
        match ch.tag() {
            ChangeTag::Equal => {
                if ch.old_index() != Some(oi) || ch.new_index() != Some(ni) {
                    return Err(format!("change {}: Equal carries indices {:?}/{:?}, expected Some({})/Some({})", i, ch.old_index(), ch.new_index(), oi, ni));
                }
                o.extend_from_slice(v);
                n.extend_from_slice(v);
                oi += 1;
                ni += 1;
                eqs += 1;
            }
            ChangeTag::Delete => {
                if ch.old_index() != Some(oi) || ch.new_index().is_some() {
                    return Err(format!("change {}: Delete carries indices {:?}/{:?}, expected Some({})/None", i, ch.old_index(), ch.new_index(), oi));
                }
                o.extend_from_slice(v);
                oi += 1;
                chg += 1;
            }
            ChangeTag::Insert => {
                if ch.new_index() != Some(ni) || ch.old_index().is_some() {
                    return Err(format!("change {}: Insert carries indices {:?}/{:?}, expected None/Some({})", i, ch.old_index(), ch.new_index(), ni));
                }
                n.extend_from_slice(v);
                ni += 1;
                chg += 1;
            }
        }
    }
    if o != old {
        return Err(format!("non-Insert changes concatenate to {:?}, old text is {:?}", crate::gen::escape_bytes(&o), crate::gen::escape_bytes(old)));
    }
    if n != new {
        return Err(format!("non-Delete changes concatenate to {:?}, new text is {:?}", crate::gen::escape_bytes(&n), crate::gen::escape_bytes(new)));
    }
    if oi != d.old_slices().len() || ni != d.new_slices().len() {
        return Err("indices do not cover all tokens".into());
    }
    // the same changes however the iterator is consumed: k hand-made next() calls, then a
    // fold-based consumer (for_each), and through a peeked Peekable
    {
        type Row<'x> = (ChangeTag, Option<usize>, Option<usize>, &'x [u8]);
        let row = |c: similar::Change<&'a T>| -> Row<'a> { (c.tag(), c.old_index(), c.new_index(), c.value().as_bytes()) };
        let plain: Vec<Row> = d.iter_all_changes().map(row).collect();
        for k in [1usize, 2, 5] {
            let mut it = d.iter_all_changes();
            let mut got: Vec<Row> = vec![];
            for _ in 0..k {
                if let Some(c) = it.next() {
                    got.push(row(c));
                }
            }
            it.for_each(|c| got.push(row(c)));
            if got != plain {
                return Err(format!("iter_all_changes consumed by {} next() calls and then for_each yields {} changes that differ from plain iteration ({} changes)", k, got.len(), plain.len()));
            }
        }
        for k in [1usize, 2, 3, 7] {
            let skipped: Vec<Row> = d.iter_all_changes().skip(k).map(row).collect();
            if skipped[..] != plain[k.min(plain.len())..] {
                return Err(format!("iter_all_changes().skip({}) yields {} changes, plain iteration has {} after the first {}", k, skipped.len(), plain.len().saturating_sub(k), k));
            }
            let nth = d.iter_all_changes().nth(k).map(row);
            if nth.as_ref() != plain.get(k) {
                return Err(format!("iter_all_changes().nth({}) = {:?}, plain iteration has {:?} there", k, nth, plain.get(k)));
            }
        }
        let stepped: Vec<Row> = d.iter_all_changes().step_by(2).map(row).collect();
        if stepped != plain.iter().step_by(2).cloned().collect::<Vec<_>>() {
            return Err("iter_all_changes().step_by(2) differs from every second change of plain iteration".into());
        }
        let mut pk = d.iter_all_changes().peekable();
        let _ = pk.peek();
        let got: Vec<Row> = pk.map(row).collect();
        if got != plain {
            return Err("iter_all_changes through a peeked Peekable differs from plain iteration".into());
        }
        // per-op iteration: same rows, op by op, also when consumed by next() + fold
        let mut per_op: Vec<Row> = vec![];
        for op in d.ops() {
            let mut it = d.iter_changes(op);
            if let Some(c) = it.next() {
                per_op.push(row(c));
            }
            per_op = it.fold(per_op, |mut v, c| {
                v.push(row(c));
                v
            });
        }
        if per_op != plain {
            return Err(format!("per-op iteration (TextDiff::iter_changes over ops(), tags and indices included) differs from iter_all_changes: {:?} vs {:?}", per_op.iter().take(6).collect::<Vec<_>>(), plain.iter().take(6).collect::<Vec<_>>()));
        }
    }
    // the same through per-op iteration
    let mut o2 = vec![];
    let mut n2 = vec![];
    for op in d.ops() {
        for ch in d.iter_changes(op) {
            let v = ch.value().as_bytes();
            if ch.tag() != ChangeTag::Insert {
                o2.extend_from_slice(v);
            }
            if ch.tag() != ChangeTag::Delete {
                n2.extend_from_slice(v);
            }
        }
    }
    if o2 != old || n2 != new {
        return Err("per-op iteration (iter_changes over ops) does not reconstruct the texts".into());
    }
    obs.nontrivial = old != new && eqs > 0 && chg > 0;
    obs.class_if(d.old_slices().len() > 100 || d.new_slices().len() > 100, "> 100 tokens");
    obs.class_if(d.old_slices().len() + d.new_slices().len() > 66_000, "> 66 000 tokens");
    Ok(())
}

/// both texts are views into one buffer (1 case in 8 of the random stage)
fn check_alias(c: &TextCase, obs: &mut Obs) -> Verdict {
    let cfg = config(c.alg);
    let (ro, rn) = alias_views(c);
    let buf = &c.old.0;
    let r = if c.old.as_str().is_none() || c.bytes {
        guard(|| {
            let d = diff_bytes(&cfg, c.tok, &buf[ro.clone()], &buf[rn.clone()]);
            judge(&d, &buf[ro.clone()], &buf[rn.clone()], obs)
        })
    } else {
        let s = c.old.as_str().unwrap();
        guard(|| {
            let d = diff_str(&cfg, c.tok, &s[ro.clone()], &s[rn.clone()]);
            judge(&d, &buf[ro.clone()], &buf[rn.clone()], obs)
        })
    };
    obs.class("old and new are views into one buffer");
    let what = format!("{} {} views {:?} and {:?} of one buffer {:?}", alg_name(c.alg), TOKENIZERS[(c.tok % 5) as usize], ro, rn, c.old);
    match r {
        Ok(Ok(())) => Verdict::Pass,
        Ok(Err(m)) => Verdict::Fail(format!("{}: {}", what, m)),
        Err(p) => Verdict::Fail(format!("{}: {}", what, p)),
    }
}

pub fn check_case(c: &TextCase, obs: &mut Obs) -> Verdict {
    if c.opt % 8 == 7 {
        return check_alias(c, obs);
    }
    let mut cfg = config(c.alg);
    let (vk, under_deadline) = deadline_dimension(c, &mut cfg);
    // the newline_terminated override is a rendering hint: whatever it says, the changes carry the
    // tokens unchanged (1 case in 5 sets it to false, 1 in 5 to true)
    match (c.old.0.len() + 2 * c.new.0.len() + c.opt as usize) % 5 {
        0 => {
            cfg.newline_terminated(false);
            obs.class("newline_terminated(false) set");
        }
        1 => {
            cfg.newline_terminated(true);
            obs.class("newline_terminated(true) set");
        }
        _ => {}
    }
    obs.class_if(under_deadline, "text diff made under a deadline that runs out (passed before the start / at one of the first probes)");
    let r = if c.use_bytes() {
        guard(|| {
            similar::verif::clock::install(vk);
            let d = diff_bytes(&cfg, c.tok, &c.old.0, &c.new.0);
            similar::verif::clock::install(None);
            exercise(&d, c.opt);
            judge(&d, &c.old.0, &c.new.0, obs)
        })
    } else {
        guard(|| {
            similar::verif::clock::install(vk);
            let d = diff_str(&cfg, c.tok, c.old.as_str().unwrap(), c.new.as_str().unwrap());
            similar::verif::clock::install(None);
            exercise(&d, c.opt);
            judge(&d, &c.old.0, &c.new.0, obs)
        })
    };
    similar::verif::clock::install(None);
    let what = format!("{} {} {}", alg_name(c.alg), TOKENIZERS[(c.tok % 5) as usize], if c.use_bytes() { "[u8]" } else { "str" });
    obs.class(TOKENIZERS[(c.tok % 5) as usize]);
    obs.class(alg_name(c.alg));
    obs.class(if c.use_bytes() { "[u8]" } else { "str" });
    obs.class_if(c.has_invalid(), "invalid UTF-8");
    obs.class_if(!c.old.0.is_ascii() || !c.new.0.is_ascii(), "non-ASCII");
    obs.class_if(c.old.0.contains(&b'\r') || c.new.0.contains(&b'\r'), "CR / CRLF present");
    match r {
        Ok(Ok(())) => Verdict::Pass,
        Ok(Err(m)) => Verdict::Fail(format!("{}: {}", what, m)),
        Err(p) => Verdict::Fail(format!("{}: {}", what, p)),
    }
}

/// more than 100 short word tokens (at most 8 bytes each) from a vocabulary in which some words
/// differ only by trailing NUL bytes ("ab" / "ab\0" / "ab\0\0", "1234567\0" / "12345678"): a key that
/// pads or truncates tokens must not make them equal
fn nul_twin_case() -> BoxedStrategy<TextCase> {
    use proptest::collection::vec;
    const VOCAB: &[&str] = &["x", "ab", "ab\0", "ab\0\0", "\0", "c\0", "c", "12345678", "1234567\0"];
    (vec(0usize..VOCAB.len(), 55..=90), vec((any::<u16>(), 0usize..VOCAB.len()), 1..=6), 0u8..3, any::<bool>(), 0u8..8)
        .prop_map(|(ws, edits, alg, bytes, opt)| {
            let mut nw = ws.clone();
            for (at, w) in edits {
                let p = crate::gen::pos(at, nw.len() - 1);
                nw[p] = w;
            }
            let render = |v: &Vec<usize>| v.iter().map(|i| VOCAB[*i]).collect::<Vec<_>>().join(" ");
            TextCase { old: crate::gen::BStr(render(&ws).into_bytes()), new: crate::gen::BStr(render(&nw).into_bytes()), tok: 1, alg, bytes, opt }
        })
        .boxed()
}

fn strat(tier: Tier) -> BoxedStrategy<TextCase> {
    prop_oneof![32 => text_case_mix(tier.pick(130, 200)), 8 => line_case(tier.pick(30, 150), true), 4 => big_line_case(tier.pick(130, 300)), 2 => distinct_line_case(tier.pick(300, 600)), 1 => nul_twin_case()].boxed()
}

const CORE: &[&[u8]] = &[b"a", b"b", b" ", b"\n", b"\r", "\u{e9}".as_bytes(), b"\x80"];

fn enum_small(_tier: Tier, f: &mut dyn FnMut(TextCase) -> bool) {
    let mut texts: Vec<Vec<u8>> = vec![];
    crate::gen::all_atom_strings(CORE, 3, &mut |s| {
        texts.push(s);
        true
    });
    for a in &texts {
        for b in &texts {
            // one tokenizer/algorithm per pair, rotating, so the enumeration stays small
            let h = (a.len() * 7 + b.len() * 13 + a.first().copied().unwrap_or(0) as usize + b.last().copied().unwrap_or(0) as usize) % 15;
            let c = TextCase { old: crate::gen::BStr(a.clone()), new: crate::gen::BStr(b.clone()), tok: (h % 5) as u8, alg: (h / 5) as u8, bytes: true, opt: 0 };
            if !f(c.clone()) {
                return;
            }
            // valid UTF-8 pairs also as str, with the next tokenizer/algorithm of the rotation
            if c.old.as_str().is_some() && c.new.as_str().is_some() {
                let h2 = (h + 7) % 15;
                if !f(TextCase { tok: (h2 % 5) as u8, alg: (h2 / 5) as u8, bytes: false, ..c }) {
                    return;
                }
            }
        }
    }
}

impl Prop for C04 {
    type Case = TextCase;
    const ID: &'static str = "C04";
    fn rule() -> String {
        "2 cases in 5 set the newline_terminated override (false / true) on the builder; 1 case in ~50 is a word diff of 109-179 short tokens from a vocabulary whose words differ only by trailing NUL bytes; 1 case in 6 builds its TextDiff under a deadline that has passed or runs out at one of the first probes (virtual clock): the approximation must reconstruct both texts like any other text diff; cases = (old text, new text, tokenizer in {lines, words, chars, unicode words, graphemes}, algorithm, str | [u8]); texts are concatenations of atoms (ASCII words, whitespace incl. NBSP/U+2028/U+3000/U+0085, LF/CR/CRLF/LFCR, combining marks, ZWJ and flag emoji, NUL/control, diff-looking fragments; for [u8] additionally 11 invalid UTF-8 fragments), new = independent or mutate(old) at atom level; sizes mostly <= 12 atoms, tail straddling 100 tokens; plus line-structured texts; plus an enumeration of all pairs of strings of <= 3 atoms over a 7-atom alphabet with a rotating tokenizer/algorithm. Oracle: concatenated values of non-Insert changes == old bytes, of non-Delete changes == new bytes; Equal has both indices, Delete only old, Insert only new; indices count 0,1,2,... per side; same through per-op iteration. 3 cases in 4 first put the diff object through a history of other queries (ratio, grouped_ops, unified diff, per-op and inline iteration, a dropped half-consumed iterator) before the judged iteration; 1 random case in 8 instead diffs two VIEWS INTO ONE BUFFER (truncated copy, tail view, adjacent views: texts that share memory). Non-trivial = texts differ and the diff has at least one Equal and one change; distinct = distinct serialized case.".into()
    }
    fn assumptions() -> Vec<String> {
        vec!["str mode is used only for valid UTF-8 (by construction)".into()]
    }
    fn stages(tier: Tier) -> Vec<Stage<TextCase>> {
        vec![
            Stage {
                name: "enum-small",
                kind: StageKind::Enumerate {
                    scope: "all pairs of strings of <= 3 atoms over {a, b, space, LF, CR, e-acute, invalid byte}, [u8], tokenizer/algorithm rotating with the pair".into(),
                    exhaustive: false,
                    gen: enum_small,
                },
            },
            Stage {
                name: "huge",
                kind: StageKind::Enumerate { scope: "texts of exactly N / N+1 tokens for N at and around the powers of two from 64 to 8192 (lines, words, chars; every algorithm, LCS up to 1025 tokens); 5 fixed line texts: 2 with 70 000 distinct lines (token ids beyond 16 bits), and per algorithm 1100 x 1100 unrelated distinct lines between a common head and tail (LCS table beyond 2^20 cells)".into(), exhaustive: true, gen: |_t, f| {
                    for c in huge_line_cases() {
                        if !f(c) {
                            return;
                        }
                    }
                    for c in pow2_text_cases() {
                        if !f(c) {
                            return;
                        }
                    }
                } },
            },
            Stage { name: "random", kind: StageKind::Random { strategy: strat, cases: tier.pick(500_000, 3_000_000) } },
        ]
    }
    fn check(case: &TextCase, obs: &mut Obs) -> Verdict {
        check_case(case, obs)
    }
}
