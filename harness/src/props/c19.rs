//! C19 — Myers and Patience do work proportional to (N+M)*(D+1).

use crate::core::*;
use crate::gen::*;
use crate::oracle::counting::{self, Cnt};
use crate::oracle::*;
use proptest::collection::vec;
use proptest::prelude::*;
use similar::algorithms;

pub struct C19;

pub const C_MYERS: u64 = 4;
pub const C_PATIENCE: u64 = 6;

/// mode 5: items are fixed-width byte records sharing a long common head (hashing them is
/// costly and lazy hashers collide); mode 0: u32 items
fn check_case(c: &SeqCase, obs: &mut Obs) -> Verdict {
    if c.mode == 5 {
        return check_records(c, obs);
    }
    check_u32(c, obs)
}

fn check_records(c: &SeqCase, obs: &mut Obs) -> Verdict {
    let alg = c.alg % 2;
    let rec = |x: &u32| counting::CntS(format!("        fixed-width record, common head: {:010}", x).into_bytes());
    let oc: Vec<counting::CntS> = c.old.iter().map(rec).collect();
    let nc: Vec<counting::CntS> = c.new.iter().map(rec).collect();
    let (n, m) = (oc.len() as u64, nc.len() as u64);
    counting::reset();
    counting::set_limit(64 * C_PATIENCE * (n + m + 1) * (n + m + 1));
    let r = guard(|| {
        let mut rec = Recorder::new();
        algorithms::diff_slices(alg_of(alg), &mut rec, &oc, &nc).unwrap();
        rec.events
    });
    let cmp = counting::total();
    counting::reset();
    let ev = match r {
        Ok(e) => e,
        Err(p) => return Verdict::Fail(format!("{} over byte-record items: {} (after {} comparisons, N={}, M={})", alg_name(alg), p, cmp, n, m)),
    };
    let (d, i, _) = events_cost(&ev);
    let dd = (d + i) as u64;
    let cc = if alg == 0 { C_MYERS } else { C_PATIENCE };
    let bound = cc * (n + m + 1) * (dd + 1);
    obs.metric("byte-record items: comparisons / ((N+M+1)(D+1))", cmp as f64 / ((n + m + 1) * (dd + 1)) as f64);
    if cmp > bound {
        return Verdict::Fail(format!(
            "{} over fixed-width byte-record items: {} element comparisons for N={}, M={}, D={}: more than {}*(N+M+1)*(D+1) = {}",
            alg_name(alg), cmp, n, m, dd, cc, bound
        ));
    }
    obs.nontrivial = n + m >= 200 && dd <= (n + m) / 20;
    obs.class(alg_name(alg));
    obs.class("items are 50-byte records with a common 40-byte head");
    Verdict::Pass
}

fn check_u32(c: &SeqCase, obs: &mut Obs) -> Verdict {
    let alg = c.alg % 2; // 0 Myers, 1 Patience
    // mode 7: every value shifted left by 16 bits (an injective relabelling whose low bits are constant:
    // the work may not depend on the values)
    let shift = if c.mode == 7 && c.old.iter().chain(c.new.iter()).all(|x| *x < 65_536) { 16 } else { 0 };
    let oc: Vec<Cnt> = c.old.iter().map(|x| Cnt(*x << shift)).collect();
    let nc: Vec<Cnt> = c.new.iter().map(|x| Cnt(*x << shift)).collect();
    let (n, m) = (oc.len() as u64, nc.len() as u64);
    // reference D for Myers is the shortest script (it is what Myers reports, C03); to stay
    // independent of the run under test for the abort limit we use the trivial upper bound N+M
    let hard_limit = 64 * C_PATIENCE * (n + m + 1) * (n + m + 1);
    // the buffers held OTHER content of the same length (same first and last item) in an earlier diff
    // on this thread and were then edited in place: nothing remembered about them may be reused
    let (mut oc, mut nc) = (oc, nc);
    if c.old.len() >= 4 && c.new.len() >= 4 && c.old.len() + c.new.len() <= 8000 && (c.old.len() + c.new.len()) % 3 == 0 {
        let (real_o, real_n) = (oc.clone(), nc.clone());
        // every second interior item becomes one repeated value; each buffer is then diffed against
        // an equal copy of itself (cheap), restored in place, and only then measured
        for v in [&mut oc, &mut nc] {
            let len = v.len();
            for (i, x) in v.iter_mut().enumerate() {
                if i % 2 == 1 && i + 1 < len {
                    *x = Cnt(7_777_777);
                }
            }
        }
        let (co, cn) = (oc.clone(), nc.clone());
        let _ = guard(|| {
            let mut rec = Recorder::new();
            let _ = algorithms::diff_slices(alg_of(alg), &mut rec, &co, &oc);
            let mut rec = Recorder::new();
            let _ = algorithms::diff_slices(alg_of(alg), &mut rec, &nc, &cn);
        });
        for (x, y) in oc.iter_mut().zip(real_o.iter()) {
            *x = *y;
        }
        for (x, y) in nc.iter_mut().zip(real_n.iter()) {
            *x = *y;
        }
        obs.class("buffers edited in place after an earlier diff");
    }
    // mode 6: the two sequences are windows of larger buffers (old behind 3/4 as many unrelated items
    // as it is long, new behind 3), diffed through the ranged entry point: the work is that of the windows
    let windows = c.mode == 6;
    if windows {
        let mut ob: Vec<Cnt> = (0..(oc.len() * 3 / 4).max(1) as u32).map(|i| Cnt(50_000_000 + i)).collect();
        let start = ob.len();
        ob.extend(oc.iter().cloned());
        ob.extend((0..17u32).map(|i| Cnt(60_000_000 + i)));
        let mut nb: Vec<Cnt> = vec![Cnt(70_000_000), Cnt(70_000_001), Cnt(70_000_002)];
        nb.extend(nc.iter().cloned());
        nb.push(Cnt(70_000_003));
        let (or, nr) = (start..start + oc.len(), 3..3 + nc.len());
        oc = ob;
        nc = nb;
        counting::reset();
        counting::set_limit(hard_limit);
        let r = guard(|| {
            let mut rec = Recorder::new();
            algorithms::diff(alg_of(alg), &mut rec, &oc[..], or.clone(), &nc[..], nr.clone()).unwrap();
            rec.events
        });
        let cmp = counting::total();
        counting::reset();
        return finish_u32(c, alg, r, cmp, n, m, true, obs);
    }
    counting::reset();
    counting::set_limit(hard_limit);
    let r = guard(|| {
        let mut rec = Recorder::new();
        algorithms::diff_slices(alg_of(alg), &mut rec, &oc, &nc).unwrap();
        rec.events
    });
    let cmp = counting::total();
    counting::reset();
    finish_u32(c, alg, r, cmp, n, m, false, obs)
}

#[allow(clippy::too_many_arguments)]
fn finish_u32(c: &SeqCase, alg: u8, r: Result<Vec<Ev>, String>, cmp: u64, n: u64, m: u64, windows: bool, obs: &mut Obs) -> Verdict {
    let ev = match r {
        Ok(e) => e,
        Err(p) => return Verdict::Fail(format!("{}{}: {} (after {} comparisons, N={}, M={})", alg_name(alg), if windows { " over windows of larger buffers" } else { "" }, p, cmp, n, m)),
    };
    let (d, i, _) = events_cost(&ev);
    let mut dd = (d + i) as u64;
    // Myers: D is the size of the SHORTEST script; where an independent reference is affordable it
    // is used instead of the size Myers reports (a slower AND non-minimal Myers must not loosen its
    // own bound)
    if alg == 0 && n * m <= 1_000_000 {
        let l = lcs_len(&c.old, &c.new) as u64;
        dd = dd.min(n + m - 2 * l);
    }
    let cc = if alg == 0 { C_MYERS } else { C_PATIENCE };
    let bound = cc * (n + m + 1) * (dd + 1);
    let ratio = cmp as f64 / ((n + m + 1) * (dd + 1)) as f64;
    obs.metric(if alg == 0 { "Myers comparisons / ((N+M+1)(D+1))" } else { "Patience comparisons / ((N+M+1)(D+1))" }, ratio);
    if cmp > bound {
        return Verdict::Fail(format!(
            "{}{}: {} element comparisons for N={}, M={}, D={}: more than {}*(N+M+1)*(D+1) = {}",
            alg_name(alg), if windows { " over windows of larger buffers (algorithms::diff with ranges)" } else { "" }, cmp, n, m, dd, cc, bound
        ));
    }
    obs.nontrivial = n + m >= 200 && dd <= (n + m) / 20;
    obs.class(alg_name(alg));
    obs.class_if(windows, "windows of larger buffers (non-zero range starts)");
    obs.class_if(c.mode == 7, "values shifted left by 16 bits (constant low bits)");
    obs.class_if(dd == 0, "identical inputs");
    obs.class_if(n + m >= 200 && dd <= (n + m) / 20, "near-identical, N+M >= 200");
    obs.class_if(dd >= (n + m) / 2 && n + m > 20, "mostly unrelated");
    obs.class_if(n + m >= 2000, "N+M >= 2000");
    obs.class_if(n + m >= 50_000, "N+M >= 50000");
    Verdict::Pass
}

fn strat(tier: Tier) -> BoxedStrategy<SeqCase> {
    let big = tier.pick(400usize, 3000);
    let alpha = || prop_oneof![Just(2u32), Just(4), Just(26), Just(1000), Just(100_000)];
    let base = move |l: usize| (alpha(), vec(0u32..100_000, l / 2..=l)).prop_map(|(k, v)| v.into_iter().map(|x| x % k).collect::<Vec<u32>>());
    let few_edits = |max: usize| vec((0u8..8, any::<u16>(), 1u8..6, 0u32..100_000), 0..=max);
    let fam = prop_oneof![
        // near-identical
        5 => (base(big), few_edits(6)).prop_map(|(a, es)| {
            let b = apply_raw_edits(&a, &es);
            (a, b)
        }),
        // periodic with a shift
        2 => (1usize..6, big / 2..=big, 0usize..5, few_edits(3)).prop_map(|(p, n, sh, es)| {
            let a: Vec<u32> = (0..n).map(|i| (i % p) as u32).collect();
            let b: Vec<u32> = (0..n).map(|i| ((i + sh) % p) as u32).collect();
            (a, apply_raw_edits(&b, &es))
        }),
        // reversed / truncated
        1 => base(big / 2).prop_map(|a| {
            let mut b = a.clone();
            b.reverse();
            (a, b)
        }),
        1 => (base(big), any::<u16>()).prop_map(|(a, p)| {
            let b = a[..pos(p, a.len())].to_vec();
            (a, b)
        }),
        // unrelated (kept smaller: quadratic by nature)
        1 => (base(big / 4), base(big / 4)),
        // the shared small mixture
        2 => seq_pair(60),
        // every value occurs 1-3 times, the copies a few positions apart and interleaved with
        // their neighbours' copies (the locally unique item keeps changing); few edits
        2 => (big / 3..=big, vec((0u8..3, 1usize..9), 64), 0u8..3, few_edits(3)).prop_map(|(n, pat, uniform, es)| {
            let mut slots: Vec<(usize, u32)> = vec![];
            for i in 0..n {
                // uniform: every value has the same number (2 or 3) of copies at the same distance
                let (copies, dist) = if uniform == 0 { (pat[0].0.max(1), pat[0].1) } else { pat[i % pat.len()] };
                for c in 0..=copies as usize {
                    slots.push((2 * i + c * (2 * dist + 1), i as u32));
                }
            }
            slots.sort();
            let mut a: Vec<u32> = slots.into_iter().map(|(_, v)| v).collect();
            // cutting a few items off the front leaves values whose first copy is gone: they are
            // unique, but only at the very start of what remains
            let cut = (pat[1].1 + pat[2].1) % 9;
            a.drain(..cut.min(a.len()));
            // ... and cutting a few items off the END leaves values whose last copy is gone: unique
            // only at the very end of what remains (and again at the end of every shorter prefix)
            let cut_end = (pat[3].1 + pat[4].1) % 5;
            a.truncate(a.len().saturating_sub(cut_end));
            let mut b = apply_raw_edits(&a, &es);
            // half of these cases also differ in their very first item
            if pat[5].1 % 2 == 0 && !b.is_empty() {
                b[0] = 9_999_999;
            }
            (a, b)
        }),
        // a block, the same values rearranged, more distinct values (second occurrences far away)
        1 => (big / 4..=big / 2, vec(any::<u16>(), 12), few_edits(2)).prop_map(|(n, cuts, es)| {
            let mut a: Vec<u32> = (0..n as u32).collect();
            let mut again: Vec<u32> = (0..n as u32).collect();
            for c in cuts {
                let p = pos(c, again.len() - 1);
                again.rotate_left(p);
                let q = pos(c.wrapping_mul(31), again.len() - 1);
                again[..=q].reverse();
            }
            a.extend(again);
            a.extend(n as u32..(n + n / 2) as u32);
            let b = apply_raw_edits(&a, &es);
            (a, b)
        }),
        // MANY scattered single-item edits (D in the hundreds, still <= (N+M)/16) on repetitive or
        // random content of a few thousand items
        1 => (prop_oneof![Just(2u32), Just(3), Just(4), Just(50), Just(100_000)], any::<bool>(), big * 3..=big * 8, 20usize..tier.pick(200, 400), vec((any::<u16>(), 0u8..3, 0u32..100_000), 400)).prop_map(|(k, periodic, n, nedits, raw)| {
            let a: Vec<u32> = if periodic { (0..n).map(|i| (i as u32) % k.min(50)).collect() } else { lcg_seq(n as u64 + k as u64, n, k) };
            let mut b = a.clone();
            for (at, kind, val) in raw.into_iter().take(nedits.min(n / 16)) {
                let p = pos(at, b.len() - 1);
                match kind {
                    0 => {
                        b.remove(p);
                    }
                    1 => b.insert(p, val % k + 1),
                    _ => b[p] = (b[p] + 1 + val % 2) % k.max(2),
                }
            }
            (a, b)
        }),
    ];
    (0u8..2, fam, 0u8..10)
        .prop_map(|(alg, (old, new), m)| {
            let mut c = SeqCase::full(alg, old, new);
            // 1 case in 10 (of moderate size) uses byte-record items
            if m == 0 && c.old.len() + c.new.len() <= 1200 {
                c.mode = 5;
            } else if m == 1 || m == 2 {
                c.mode = 6;
            } else if m == 3 {
                c.mode = 7;
            }
            c
        })
        .boxed()
}

fn apply_raw_edits(a: &[u32], es: &[(u8, u16, u8, u32)]) -> Vec<u32> {
    let mut v = a.to_vec();
    for (kind, at, len, val) in es {
        let n = v.len();
        match kind % 4 {
            0 if n > 0 => {
                let p = pos(*at, n - 1);
                let l = (*len as usize).min(n - p);
                v.drain(p..p + l);
            }
            1 => v.insert(pos(*at, n), *val),
            2 if n > 0 => {
                let p = pos(*at, n - 1);
                v[p] = *val;
            }
            3 if n > 1 => {
                // block move
                let p = pos(*at, n - 1);
                let l = (*len as usize * 4).min(n - p);
                let run: Vec<u32> = v.drain(p..p + l).collect();
                let q = pos(at.wrapping_mul(7), v.len());
                for (i, x) in run.into_iter().enumerate() {
                    v.insert(q + i, x);
                }
            }
            _ => {}
        }
    }
    v
}

/// fixed large near-identical inputs (equal runs of tens of thousands of items)
fn enum_large(tier: Tier, f: &mut dyn FnMut(SeqCase) -> bool) {
    let sizes: &[usize] = if tier == Tier::Thorough { &[20_000, 60_000, 150_000] } else { &[20_000, 60_000] };
    for &n in sizes {
        for alg in 0..2u8 {
            // all distinct, one replaced item
            let a: Vec<u32> = (0..n as u32).collect();
            let mut b = a.clone();
            b[n / 2] = 9_000_000;
            if !f(SeqCase::full(alg, a.clone(), b)) {
                return;
            }
            // small alphabet, three edits, long common prefix and suffix
            let a2 = lcg_seq(n as u64, n, 4);
            let mut b2 = a2.clone();
            b2.remove(n / 3);
            b2.insert(n / 2, 7);
            b2[n - n / 5] = 8;
            if !f(SeqCase::full(alg, a2, b2)) {
                return;
            }
        }
    }
    // a block of 12 fresh items in front of / a block of 30 items moved to the end of a long run of
    // distinct items (every item is unique on both sides)
    for &n in &[3000u32, 20_000] {
        for alg in 0..2u8 {
            let a: Vec<u32> = (0..n).collect();
            let mut b: Vec<u32> = (8_000_000..8_000_012).collect();
            b.extend(0..n);
            if !f(SeqCase::full(alg, a.clone(), b)) {
                return;
            }
            let mut b2 = a.clone();
            let blk: Vec<u32> = b2.drain(100..130).collect();
            b2.extend(blk);
            if !f(SeqCase::full(alg, a, b2)) {
                return;
            }
        }
    }
    // distinct items, sizes straddling a power of two (2^k - 1 items vs 2^k + 1: one inserted, one replaced)
    for k in 8..=13u32 {
        for alg in 0..2u8 {
            let n = (1u32 << k) - 1;
            let a: Vec<u32> = (0..n).collect();
            let mut b = a.clone();
            b.insert((n / 2) as usize, 7_000_000);
            b.insert((n / 3) as usize, 7_000_001);
            b[5] = 7_000_002;
            if !f(SeqCase::full(alg, a, b)) {
                return;
            }
        }
    }
    // the same kind of input as windows of larger buffers (mode 6): 8000 distinct items, the first and
    // the last one edited
    for alg in 0..2u8 {
        let a: Vec<u32> = (0..8000u32).collect();
        let mut b = a.clone();
        b[0] = 7_100_000;
        b[7999] = 7_100_001;
        let mut c = SeqCase::full(alg, a, b);
        c.mode = 6;
        if !f(c) {
            return;
        }
    }
    // distinct items that are multiples of 2^16 (constant low bits), one replaced
    for &n in &[8000u32, 20_000] {
        for alg in 0..2u8 {
            let a: Vec<u32> = (1..=n).collect();
            let mut b = a.clone();
            b[(n / 2) as usize] = 65_000;
            let mut c = SeqCase::full(alg, a, b);
            c.mode = 7;
            if !f(c) {
                return;
            }
        }
    }
    // unrelated inputs of distinct items (D = N+M in the thousands): the claim is linear in D as well
    for &n in &[1500u32, 3000, 5000] {
        for alg in 0..2u8 {
            let a: Vec<u32> = (0..n).collect();
            let b: Vec<u32> = (1_000_000..1_000_000 + n).collect();
            if !f(SeqCase::full(alg, a, b)) {
                return;
            }
        }
    }
    // records: 2500 distinct fixed-width records, one edit
    for alg in 0..2u8 {
        let a: Vec<u32> = (0..2500u32).collect();
        let mut b = a.clone();
        b[1234] = 777_777;
        let mut c = SeqCase::full(alg, a, b);
        c.mode = 5;
        if !f(c) {
            return;
        }
    }
}

impl Prop for C19 {
    type Case = SeqCase;
    const ID: &'static str = "C19";
    fn rule() -> String {
        "cases = (Myers|Patience, old, new) over an element type whose PartialEq counts calls; a stage of fixed inputs of 20 000-150 000 near-identical items and of 2^k-1 vs 2^k+1 distinct items (k = 8..13); a tenth of the random cases (and fixed inputs of 8000 / 20 000 distinct items) use values that are multiples of 2^16; a fifth of the random cases (and a fixed 8000-item input) are windows of larger buffers diffed through algorithms::diff with non-zero range starts; fixed unrelated inputs of 1500, 3000 and 5000 distinct items per side (D in the thousands); a third of the random cases are measured on buffers that held other content in an earlier diff and were edited in place; 1 random case in 10 uses 50-byte record items sharing a 40-byte head (so hashing/equality of long keys is exercised); families: near-identical (0-6 edits incl. block moves) up to 400 (quick) / 3000 (thorough) items over alphabets {2,4,26,10^3,10^5}, periodic with shift, reversed, truncated, unrelated, the shared small mixture, sequences in which every value occurs 1-3 times a few positions apart (interleaved copies; a few items cut off the front and off the end, so that the locally unique item sits at an end; half of them with a changed first item), a block followed by the same values rearranged (second occurrences far away), and 1200-3200 (thorough: 9000-24000) items with 20-200 (400) scattered single-item edits on periodic or random content. Oracle: comparisons <= c*(N+M+1)*(D+1) with D = size of the reported script (Myers: the smaller of that and the shortest script by an independent LCS reference when N*M <= 10^6), c = 4 (Myers) / 6 (Patience); the counter aborts the run at 64x the largest possible bound so a quadratic or non-terminating change ends as a measured violation. The maximum measured ratio is reported under metrics_max. Non-trivial = N+M >= 200 and D <= (N+M)/20 (the near-linear claim); distinct = distinct serialized case.".into()
    }
    fn assumptions() -> Vec<String> {
        vec!["the constants are calibrated (measured maxima about 0.7 Myers / 1.6 Patience), not derived: the check decides 'within c x of the documented O((N+M)D)'".into()]
    }
    fn stages(tier: Tier) -> Vec<Stage<SeqCase>> {
        vec![
            Stage {
                name: "large",
                kind: StageKind::Enumerate {
                    scope: "fixed near-identical inputs of 20 000 and 60 000 (thorough: 150 000) items (all distinct with one replaced item; 4-letter alphabet with three edits) and 2500 distinct 50-byte records with one edit, Myers and Patience".into(),
                    exhaustive: true,
                    gen: enum_large,
                },
            },
            Stage { name: "random", kind: StageKind::Random { strategy: strat, cases: tier.pick(200_000, 400_000) } },
        ]
    }
    fn check(case: &SeqCase, obs: &mut Obs) -> Verdict {
        check_case(case, obs)
    }
    fn describe(case: &SeqCase) -> serde_json::Value {
        let head = |v: &Vec<u32>| v.iter().take(12).cloned().collect::<Vec<_>>();
        serde_json::json!({"alg": alg_name(case.alg % 2), "old_len": case.old.len(), "new_len": case.new.len(), "old_head": head(&case.old), "new_head": head(&case.new)})
    }
}
