//! C16 — inline changes re-split each line losslessly; only changed words emphasised.

use super::common::*;
use crate::core::*;
use crate::gen::escape_bytes;
use crate::oracle::*;
use proptest::prelude::*;
use similar::{ChangeTag, DiffOp, DiffableStr, TextDiff};
use std::time::{Duration, Instant};

pub struct C16;

/// opt: 0 = inline deadline None, 1 = virtual clock expiring at probe 0, 2 = real deadline in the
/// past, 3 = the default iter_inline_changes (500 ms real deadline; its result must satisfy the
/// same invariants whatever happens), 4.. = virtual clock expiring at probe opt-4
fn judge<'a, T: DiffableStr + ?Sized + 'a>(d: &'a TextDiff<'a, 'a, 'a, T>, opt: u8, _bare_items: bool, obs: &mut Obs) -> Result<(), String> {
    let mut emphasised_and_plain = false;
    let mut any_replace = false;
    for op in d.ops() {
        let plain: Vec<_> = d.iter_changes(op).collect();
        let inline: Vec<_> = match opt {
            0 => d.iter_inline_changes_deadline(op, None).collect(),
            2 => match Instant::now().checked_sub(Duration::from_secs(5)) {
                Some(past) => d.iter_inline_changes_deadline(op, Some(past)).collect(),
                None => d.iter_inline_changes_deadline(op, None).collect(),
            },
            3 => d.iter_inline_changes(op).collect(),
            k => {
                let k = if k == 1 { 0 } else { (k - 4) as u64 };
                similar::verif::clock::install(Some(k));
                let v = d.iter_inline_changes_deadline(op, Some(far_future())).collect();
                similar::verif::clock::install(None);
                v
            }
        };
        let is_replace = matches!(op, DiffOp::Replace { .. });
        any_replace |= is_replace;
        // asking again gives the same answer (no deadline involved: opt 0)
        if opt == 0 && is_replace {
            let again: Vec<_> = d.iter_inline_changes_deadline(op, None).collect();
            if again != inline {
                return Err(format!("{:?}: iter_inline_changes_deadline(op, None) called twice gives different results", op));
            }
        }
        // the inline iterator under every std consumer (count, last, nth, fold, ...), no deadline
        if opt == 0 && inline.len() <= 8 {
            let tup = |ic: similar::InlineChange<'a, T>| (ic.tag(), ic.old_index(), ic.new_index(), ic.missing_newline(), ic.values().iter().map(|(e, s)| (*e, s.as_bytes().to_vec())).collect::<Vec<_>>());
            let want: Vec<_> = d.iter_inline_changes_deadline(op, None).map(tup).collect();
            consumers_agree("iter_inline_changes_deadline(op, None)", || d.iter_inline_changes_deadline(op, None), tup, &want, inline.len() / 2)?;
        }
        // only changed words are emphasised: whatever is NOT emphasised on the old side of a Replace is
        // what is not emphasised on its new side (the words the two sides share), line breaks aside;
        // judged when the op was refined at all (some segment is emphasised)
        if is_replace && inline.iter().any(|ic| ic.values().iter().any(|(e, _)| *e)) {
            let plain_of = |tag: ChangeTag| -> Vec<u8> {
                inline
                    .iter()
                    .filter(|ic| ic.tag() == tag)
                    .flat_map(|ic| ic.values().iter().filter(|(e, _)| !*e).flat_map(|(_, s)| s.as_bytes().iter().copied()).collect::<Vec<u8>>())
                    .filter(|b| *b != b'\r' && *b != b'\n')
                    .collect()
            };
            let (po, pn) = (plain_of(ChangeTag::Delete), plain_of(ChangeTag::Insert));
            if po != pn {
                return Err(format!(
                    "{:?}: the un-emphasised text of the deleted lines {:?} differs from the un-emphasised text of the inserted lines {:?} (line breaks aside): something other than the changed words is emphasised, or a changed word is not",
                    op, escape_bytes(&po), escape_bytes(&pn)
                ));
            }
        }
        if inline.len() != plain.len() {
            return Err(format!("{:?}: inline expansion has {} changes, plain expansion {}", op, inline.len(), plain.len()));
        }
        for (ic, pc) in inline.iter().zip(plain.iter()) {
            if ic.tag() != pc.tag() || ic.old_index() != pc.old_index() || ic.new_index() != pc.new_index() {
                return Err(format!(
                    "{:?}: inline change ({:?},{:?},{:?}) where the plain expansion has ({:?},{:?},{:?})",
                    op, ic.tag(), ic.old_index(), ic.new_index(), pc.tag(), pc.old_index(), pc.new_index()
                ));
            }
            let line = pc.value().as_bytes();
            let mut cat = vec![];
            let (mut emph, mut plain_seg) = (false, false);
            for (e, seg) in ic.values() {
                let sb = seg.as_bytes();
                cat.extend_from_slice(sb);
                if *e {
                    emph = true;
                    if !(is_replace && ic.tag() != ChangeTag::Equal) {
                        return Err(format!("{:?}: emphasised segment {:?} in a {:?} change that does not stem from a Replace op", op, escape_bytes(sb), ic.tag()));
                    }
                    if sb.iter().any(|c| *c == b'\r' || *c == b'\n') {
                        return Err(format!("{:?}: emphasised segment {:?} contains a line break", op, escape_bytes(sb)));
                    }
                } else {
                    plain_seg = true;
                }
            }
            // the lossy string view is the same segments, decoded
            let lossy: Vec<(bool, String)> = ic.iter_strings_lossy().map(|(e, s)| (e, s.into_owned())).collect();
            let want_lossy: Vec<(bool, String)> = ic.values().iter().map(|(e, seg)| (*e, String::from_utf8_lossy(seg.as_bytes()).into_owned())).collect();
            if lossy != want_lossy {
                return Err(format!("{:?}: iter_strings_lossy() gives {:?}, the segments are {:?}", op, lossy, want_lossy));
            }
            if cat != line {
                return Err(format!("{:?}: inline segments concatenate to {:?}, the line is {:?}", op, escape_bytes(&cat), escape_bytes(line)));
            }
            if ic.missing_newline() != pc.missing_newline() {
                return Err(format!("{:?}: inline missing_newline() = {}, plain = {} (line {:?})", op, ic.missing_newline(), pc.missing_newline(), escape_bytes(line)));
            }
            let want_missing = !matches!(line.last(), Some(b'\n') | Some(b'\r'));
            if ic.missing_newline() != want_missing {
                return Err(format!("{:?}: missing_newline() = {} for line {:?}", op, ic.missing_newline(), escape_bytes(line)));
            }
            if emph && plain_seg {
                emphasised_and_plain = true;
            }
        }
    }
    obs.nontrivial = emphasised_and_plain;
    obs.class_if(any_replace, "has a Replace op");
    obs.class_if(emphasised_and_plain, "line with emphasised and plain segments");
    Ok(())
}

/// An inline expansion of OTHER texts held in the very same String buffers (refilled in place
/// afterwards: same address, same length, same line count) must not influence the judged one.
fn reused_buffers(c: &TextCase) -> Result<(), String> {
    let (o, n) = match (c.old.as_str(), c.new.as_str()) {
        (Some(o), Some(n)) => (o, n),
        _ => return Ok(()),
    };
    // other texts of the same length and line count: the words of every line in reverse order
    let other = |s: &str| -> String {
        s.split_inclusive('\n')
            .map(|l| {
                let (body, term) = match l.strip_suffix('\n') {
                    Some(b) => (b, "\n"),
                    None => (l, ""),
                };
                let mut ws: Vec<&str> = body.split_inclusive(' ').collect();
                ws.reverse();
                format!("{}{}", ws.concat(), term)
            })
            .collect()
    };
    let (vo, vn) = (other(o), other(n));
    if vo.len() != o.len() || vn.len() != n.len() {
        return Ok(());
    }
    let cfg = config(c.alg);
    let expand = |a: &str, b: &str| -> Vec<(ChangeTag, Option<usize>, Option<usize>, Vec<(bool, String)>)> {
        let d = cfg.diff_lines(a, b);
        d.ops()
            .iter()
            .flat_map(|op| d.iter_inline_changes_deadline(op, None).map(|ic| (ic.tag(), ic.old_index(), ic.new_index(), ic.values().iter().map(|(e, s)| (*e, s.to_string())).collect())).collect::<Vec<_>>())
            .collect()
    };
    let fresh = expand(o, n);
    let mut bo = String::with_capacity(o.len().max(1));
    let mut bn = String::with_capacity(n.len().max(1));
    bo.push_str(&vo);
    bn.push_str(&vn);
    let _ = expand(&bo, &bn);
    bo.clear();
    bo.push_str(o);
    bn.clear();
    bn.push_str(n);
    let again = expand(&bo, &bn);
    if again != fresh {
        return Err(format!("inline expansion over String buffers that held other texts of the same shape before (refilled in place) gives {:?}, over fresh strings {:?}", again, fresh));
    }
    Ok(())
}

pub fn check_case(c: &TextCase, obs: &mut Obs) -> Verdict {
    if c.opt % 8 == 0 && c.old.0.len() + c.new.0.len() <= 400 {
        match guard(|| reused_buffers(c)) {
            Ok(Ok(())) => {}
            Ok(Err(m)) => return Verdict::Fail(format!("{} lines: {}", alg_name(c.alg), m)),
            Err(p) => return Verdict::Fail(format!("inline changes over reused buffers: {}", p)),
        }
    }
    let cfg = config(c.alg);
    let opt = c.opt % 8;
    obs.class(["inline deadline: none", "inline deadline: expired at probe 0", "inline deadline: real clock, past", "iter_inline_changes (default 500 ms)", "inline deadline: expires at probe 0..3", "inline deadline: expires at probe 0..3", "inline deadline: expires at probe 0..3", "inline deadline: expires at probe 0..3"][opt as usize]);
    obs.class(if c.use_bytes() { "[u8]" } else { "str" });
    obs.class_if(c.has_invalid(), "invalid UTF-8");
    // how the line diff is built: 0 diff_lines; 1 / 2 with newline_terminated(false / true); 3 / 4
    // diff_slices over the line tokens (terminators kept), 4 with newline_terminated(true)
    let how = c.tok % 7;
    obs.class(["built by diff_lines", "diff_lines + newline_terminated(false)", "diff_lines + newline_terminated(true)", "diff_slices over line tokens", "diff_slices over line tokens + newline_terminated(true)", "diff_slices over caller-split lines WITHOUT terminators (blank lines are empty items)", "diff_slices over items of TWO lines each (a line break inside the item)"][how as usize]);
    let mut cfg = cfg;
    match how {
        1 => {
            cfg.newline_terminated(false);
        }
        2 | 4 => {
            cfg.newline_terminated(true);
        }
        _ => {}
    }
    let r = if c.use_bytes() {
        guard(|| {
            if how >= 3 {
                fn strip(t: &[u8]) -> &[u8] {
                    let t = t.strip_suffix(b"\n").unwrap_or(t);
                    t.strip_suffix(b"\r").unwrap_or(t)
                }
                let (mut to, mut tn) = (c.old.0[..].tokenize_lines(), c.new.0[..].tokenize_lines());
                if how == 5 {
                    to = to.into_iter().map(|t| strip(t)).collect();
                    tn = tn.into_iter().map(|t| strip(t)).collect();
                }
                if how == 6 {
                    to = pair_up(&c.old.0[..], &to).into_iter().map(|r| &c.old.0[r]).collect();
                    tn = pair_up(&c.new.0[..], &tn).into_iter().map(|r| &c.new.0[r]).collect();
                }
                let d = cfg.diff_slices(&to, &tn);
                judge(&d, opt, how == 5, obs)
            } else {
                let d = cfg.diff_lines(&c.old.0[..], &c.new.0[..]);
                judge(&d, opt, how == 5, obs)
            }
        })
    } else {
        guard(|| {
            if how >= 3 {
                fn strip(t: &str) -> &str {
                    t.trim_end_matches(|ch| ch == '\n' || ch == '\r')
                }
                let (mut to, mut tn) = (c.old.as_str().unwrap().tokenize_lines(), c.new.as_str().unwrap().tokenize_lines());
                if how == 5 {
                    to = to.into_iter().map(|t| strip(t)).collect();
                    tn = tn.into_iter().map(|t| strip(t)).collect();
                }
                if how == 6 {
                    let (so, sn) = (c.old.as_str().unwrap(), c.new.as_str().unwrap());
                    to = pair_up(so.as_bytes(), &to.iter().map(|t| t.as_bytes()).collect::<Vec<_>>()).into_iter().map(|r| &so[r]).collect();
                    tn = pair_up(sn.as_bytes(), &tn.iter().map(|t| t.as_bytes()).collect::<Vec<_>>()).into_iter().map(|r| &sn[r]).collect();
                }
                let d = cfg.diff_slices(&to, &tn);
                judge(&d, opt, how == 5, obs)
            } else {
                let d = cfg.diff_lines(c.old.as_str().unwrap(), c.new.as_str().unwrap());
                judge(&d, opt, how == 5, obs)
            }
        })
    };
    match r {
        Ok(Ok(())) => Verdict::Pass,
        Ok(Err(m)) => Verdict::Fail(format!("{} lines {}: {}", alg_name(c.alg), if c.use_bytes() { "[u8]" } else { "str" }, m)),
        Err(p) => Verdict::Fail(format!("inline changes: {}", p)),
    }
}

/// byte ranges of the items obtained by joining consecutive line tokens two by two (the tokens
/// partition `text`)
fn pair_up(text: &[u8], toks: &[&[u8]]) -> Vec<std::ops::Range<usize>> {
    let mut out = vec![];
    let mut at = 0;
    for pair in toks.chunks(2) {
        let len: usize = pair.iter().map(|t| t.len()).sum();
        out.push(at..at + len);
        at += len;
    }
    debug_assert!(at == text.len());
    out
}

/// lines made of several words, mutated at word level, so Replace ops pass the ratio gates
fn wordy_pair(invalid: bool) -> BoxedStrategy<(crate::gen::BStr, crate::gen::BStr)> {
    use proptest::collection::vec;
    let nwords = crate::gen::ATOMS.len();
    let n_all = crate::gen::n_atoms(invalid);
    let word = move || prop_oneof![5 => prop_oneof![Just(0usize), Just(1), Just(2), Just(5), Just(6), Just(10), Just(11)], 2 => 0usize..nwords, 1 => 0usize..n_all];
    // a line: words separated by single spaces, terminator
    // (one line in ten is blank: no word at all)
    let line = move || (prop_oneof![1 => vec(word(), 0..=0), 9 => vec(word(), 1..=6)], 0usize..6);
    (vec(line(), 0..=6), vec((0u8..6, any::<u16>(), any::<u16>(), word()), 0..=5), any::<bool>(), any::<bool>())
        .prop_map(|(lines, edits, fa, fb)| {
            let mut new_lines = lines.clone();
            for (kind, li, wi, w) in edits {
                if new_lines.is_empty() {
                    new_lines.push((vec![w], 0));
                    continue;
                }
                let l = crate::gen::pos(li, new_lines.len() - 1);
                let nw = new_lines[l].0.len();
                match kind {
                    0 if nw == 0 => new_lines[l].0.push(w),
                    0 => {
                        let p = crate::gen::pos(wi, nw - 1);
                        new_lines[l].0[p] = w;
                    }
                    1 => {
                        let p = crate::gen::pos(wi, nw);
                        new_lines[l].0.insert(p, w);
                    }
                    2 => {
                        if nw > 1 {
                            let p = crate::gen::pos(wi, nw - 1);
                            new_lines[l].0.remove(p);
                        }
                    }
                    3 => {
                        new_lines[l].1 = (new_lines[l].1 + 1) % 6;
                    }
                    4 => {
                        let x = new_lines[l].clone();
                        new_lines.insert(l, x);
                    }
                    _ => {
                        new_lines.remove(l);
                    }
                }
            }
            let render = |ls: &[(Vec<usize>, usize)], fin: bool| {
                let mut v = vec![];
                for (i, (ws, t)) in ls.iter().enumerate() {
                    for (j, w) in ws.iter().enumerate() {
                        if j > 0 {
                            v.push(b' ');
                        }
                        // words containing line breaks would change the line structure; map them to plain words
                        let b = crate::gen::atom_bytes(*w);
                        if b.iter().any(|c| *c == b'\n' || *c == b'\r') {
                            v.extend_from_slice(b"nl");
                        } else {
                            v.extend_from_slice(b);
                        }
                    }
                    if i + 1 < ls.len() || fin {
                        v.extend_from_slice(["\n", "\n", "\n", "\n", "\r\n", "\r"][*t].as_bytes());
                    }
                }
                crate::gen::BStr(v)
            };
            (render(&lines, fa), render(&new_lines, fb))
        })
        .boxed()
}

fn strat(tier: Tier) -> BoxedStrategy<TextCase> {
    let wordy = |invalid: bool| {
        (wordy_pair(invalid), 0u8..3, any::<bool>(), 0u8..8, prop_oneof![4 => Just(0u8), 1 => 1u8..7])
            .prop_map(move |((old, new), alg, bytes, opt, tok)| TextCase { old, new, tok, alg, bytes: bytes || invalid, opt })
    };
    prop_oneof![20 => wordy(false), 12 => wordy(true), 8 => line_case(tier.pick(20, 60), true), 4 => text_case_mix(60).prop_map(|mut c| { c.tok = 0; c }), 1 => big_line_case(tier.pick(120, 200))].boxed()
}

/// fixed large cases: a Replace op spanning hundreds of lines, lines of several KiB
fn enum_large(_tier: Tier, f: &mut dyn FnMut(TextCase) -> bool) {
    let mut cases = vec![];
    // 300 / 600 lines, one word changed in every line (one big Replace op)
    for n in [300usize, 600] {
        let old: String = (0..n).map(|i| format!("alpha beta {} gamma\n", i)).collect();
        let new: String = (0..n).map(|i| format!("alpha BETA {} gamma\n", i)).collect();
        cases.push((old, new));
    }
    // one line of ~1000 words (8 KiB), one word changed; with and without multi-byte words
    for w in ["word", "w\u{f6}rd\u{65e5}"] {
        let mk = |changed: usize| -> String { (0..1000).map(|i| if i == changed { format!("CHANGED{} ", i) } else { format!("{}{} ", w, i) }).collect::<String>() + "\n" };
        cases.push((format!("head\n{}tail\n", mk(usize::MAX)), format!("head\n{}tail\n", mk(517))));
    }
    // 40 lines of 300 bytes each replaced by similar lines, missing final newline
    let old: String = (0..40).map(|i| format!("{} {}\r\n", "lorem ipsum dolor sit amet ".repeat(10), i)).collect::<String>() + "end";
    let new: String = (0..40).map(|i| format!("{} {}\r\n", "lorem ipsum color sit amet ".repeat(10), i)).collect::<String>() + "end.";
    cases.push((old, new));
    for (old, new) in cases {
        for (alg, bytes, opt) in [(0u8, false, 0u8), (1, true, 0), (0, false, 3)] {
            let c = TextCase { old: crate::gen::BStr(old.clone().into_bytes()), new: crate::gen::BStr(new.clone().into_bytes()), tok: 0, alg, bytes, opt };
            if !f(c) {
                return;
            }
        }
    }
}

impl Prop for C16 {
    type Case = TextCase;
    const ID: &'static str = "C16";
    fn rule() -> String {
        "cases = (old, new, algorithm, str | [u8], construction in {diff_lines, diff_lines with newline_terminated(false|true), diff_slices over the line tokens (with/without newline_terminated(true)), diff_slices over caller-split lines without terminators (blank lines are empty items), diff_slices over items of two lines each (a line break inside the item)}, inline deadline in {None, virtual clock expiring at probe 0..3, real deadline in the past, default iter_inline_changes}); line texts whose lines consist of several words and are mutated at WORD level (replace/insert/delete a word, change the terminator, duplicate/delete a line) so that Replace ops pass both similarity gates; words include multi-byte, combining, emoji, NBSP and (for [u8]) invalid UTF-8 fragments; plus the shared line/text mixtures. Oracle per op: inline tags and old/new indices == plain expansion; segments concatenate to the plain change's line; emphasised segments only in Delete/Insert changes of a Replace op and without CR/LF; in a refined Replace the un-emphasised text of the old lines equals the un-emphasised text of the new lines, line breaks aside (only changed words are emphasised); missing_newline agrees with the line; no panic. Non-trivial = some line has both an emphasised and a plain segment; distinct = distinct serialized case.".into()
    }
    fn assumptions() -> Vec<String> {
        vec!["'line-break character' = CR or LF (the crate's own line convention)".into(), "the default 500 ms deadline variant is judged only by invariants that hold whether or not it expires".into()]
    }
    fn stages(tier: Tier) -> Vec<Stage<TextCase>> {
        vec![
            Stage {
                name: "large",
                kind: StageKind::Enumerate {
                    scope: "fixed large cases: Replace ops of 300 and 600 lines, single lines of ~1000 words (8 KiB, ASCII and multi-byte), 40 CRLF lines of 300 bytes without final newline; x 3 configurations".into(),
                    exhaustive: true,
                    gen: enum_large,
                },
            },
            Stage { name: "random", kind: StageKind::Random { strategy: strat, cases: tier.pick(600_000, 3_000_000) } },
        ]
    }
    fn check(case: &TextCase, obs: &mut Obs) -> Verdict {
        check_case(case, obs)
    }
}
