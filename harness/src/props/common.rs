//! helpers shared by the sequence-level properties

use crate::core::guard;
use crate::gen::*;
use crate::oracle::*;
use proptest::prelude::*;
use serde::{Deserialize, Serialize};
use similar::algorithms::{self, IdentifyDistinct};
use similar::{capture_diff_deadline, capture_diff_slices_deadline, DiffOp, TextDiff, TextDiffConfig};
use std::time::{Duration, Instant};

pub fn far_future() -> Instant {
    Instant::now() + Duration::from_secs(3600)
}

/// number of deadline probes the capture of this case performs when the deadline never expires
pub fn probe_count(c: &SeqCase) -> Result<u64, String> {
    guard(|| {
        similar::verif::clock::install(Some(u64::MAX));
        let _ = capture_diff_deadline(alg_of(c.alg), &c.old[..], c.old_r(), &c.new[..], c.new_r(), Some(far_future()));
        let t = similar::verif::clock::probes();
        similar::verif::clock::install(None);
        t
    })
}

/// effective expiry index for a raw selector: monotone map onto 0..=T
pub fn eff_k(raw: u64, t: u64) -> u64 {
    // small selectors name a probe directly (0, 1, 2, ... clamped to T); larger ones are spread
    // monotonically over 0..=T
    if raw < 16 {
        raw.min(t)
    } else {
        pos((raw & 0xffff) as u16, t as usize) as u64
    }
}

/// Captured ops of a case. `k`: None = no deadline, Some(k) = virtual clock expiring at probe k.
/// mode 0: capture_diff(_deadline) with ranges; 1: capture_diff_slices(_deadline) on the extracted
/// slices (indices shifted back); 2: through IdentifyDistinct offset lookups.
pub fn capture(c: &SeqCase, k: Option<u64>) -> Result<Vec<DiffOp>, String> {
    guard(|| {
        let alg = alg_of(c.alg);
        let dl = match k {
            Some(k) => {
                similar::verif::clock::install(Some(k));
                Some(far_future())
            }
            None => None,
        };
        let ops = match c.mode % 3 {
            0 => match dl {
                None => similar::capture_diff(alg, &c.old[..], c.old_r(), &c.new[..], c.new_r()),
                dl => capture_diff_deadline(alg, &c.old[..], c.old_r(), &c.new[..], c.new_r(), dl),
            },
            1 => {
                let ops = match dl {
                    None => similar::capture_diff_slices(alg, c.old_slice(), c.new_slice()),
                    dl => capture_diff_slices_deadline(alg, c.old_slice(), c.new_slice(), dl),
                };
                shift_ops(&ops, c.or.0, c.nr.0)
            }
            _ => {
                let h = IdentifyDistinct::<u32>::new(&c.old[..], c.old_r(), &c.new[..], c.new_r());
                capture_diff_deadline(alg, h.old_lookup(), h.old_range(), h.new_lookup(), h.new_range(), dl)
            }
        };
        similar::verif::clock::install(None);
        ops
    })
}

pub fn shift_ops(ops: &[DiffOp], d: usize, n: usize) -> Vec<DiffOp> {
    ops.iter()
        .map(|op| match *op {
            DiffOp::Equal { old_index, new_index, len } => DiffOp::Equal { old_index: old_index + d, new_index: new_index + n, len },
            DiffOp::Delete { old_index, old_len, new_index } => DiffOp::Delete { old_index: old_index + d, old_len, new_index: new_index + n },
            DiffOp::Insert { old_index, new_index, new_len } => DiffOp::Insert { old_index: old_index + d, new_index: new_index + n, new_len },
            DiffOp::Replace { old_index, old_len, new_index, new_len } => {
                DiffOp::Replace { old_index: old_index + d, old_len, new_index: new_index + n, new_len }
            }
        })
        .collect()
}

/// raw (uncaptured) event stream
pub fn raw_events(c: &SeqCase, k: Option<u64>) -> Result<Vec<Ev>, String> {
    guard(|| {
        let dl = match k {
            Some(k) => {
                similar::verif::clock::install(Some(k));
                Some(far_future())
            }
            None => None,
        };
        let mut r = Recorder::new();
        // full-range calls without a deadline rotate through the three entry points that are documented
        // to agree: diff_deadline(.., None), diff_slices and diff
        match (k, c.is_full(), (c.old.len() + c.new.len()) % 3) {
            (None, true, 1) => algorithms::diff_slices(alg_of(c.alg), &mut r, &c.old[..], &c.new[..]).unwrap(),
            (None, true, 2) => algorithms::diff(alg_of(c.alg), &mut r, &c.old[..], c.old_r(), &c.new[..], c.new_r()).unwrap(),
            _ => algorithms::diff_deadline(alg_of(c.alg), &mut r, &c.old[..], c.old_r(), &c.new[..], c.new_r(), dl).unwrap(),
        }
        similar::verif::clock::install(None);
        r.events
    })
}

/// sequence case with an optional deadline selector
pub fn seq_case_k(max_len: usize, sub: bool, modes: u8, with_deadline: bool) -> BoxedStrategy<SeqCase> {
    let ks = if with_deadline {
        prop_oneof![2 => Just(None), 1 => (0u64..16).prop_map(Some), 2 => (16u64..65536).prop_map(Some)].boxed()
    } else {
        Just(None).boxed()
    };
    (seq_case(max_len, sub, modes), ks)
        .prop_map(|(mut c, k)| {
            c.k = k;
            c
        })
        .boxed()
}

/// big sequence families for the capture pipeline: thousands of raw ops; edits (also blocks of
/// more than 1000 identical items) next to periodic runs of thousands of items
pub fn big_seq_case(tier: crate::core::Tier) -> BoxedStrategy<SeqCase> {
    use proptest::collection::vec;
    let big = tier.pick(2500usize, 5000);
    prop_oneof![
        (2u32..5, vec(0u32..64, 1200..=big), vec((0u8..3, any::<u16>(), 0u32..64), 300..=900), 0u8..2).prop_map(|(k, a, es, alg)| {
            let a: Vec<u32> = a.into_iter().map(|x| x % k).collect();
            let mut b = a.clone();
            for (kind, at, val) in es {
                let n = b.len();
                if n == 0 {
                    break;
                }
                let p = pos(at, n - 1);
                match kind {
                    0 => {
                        b.remove(p);
                    }
                    1 => b.insert(p, val % k),
                    _ => b[p] = val % k,
                }
            }
            SeqCase::full(alg, a, b)
        }),
        (1usize..4, 2200..=tier.pick(5200usize, 9000), prop_oneof![3 => 0usize..3, 1 => 1000usize..1600], any::<u16>(), 0u8..3, any::<bool>()).prop_map(|(p, n, extra, at, alg, del)| {
            let a: Vec<u32> = (0..n).map(|i| (i % p) as u32).collect();
            let mut b = a.clone();
            let q = pos(at, b.len());
            if del {
                let k = (extra + 1).min(b.len() - q);
                b.drain(q..q + k);
            } else {
                let block: Vec<u32> = (0..=extra).map(|t| ((q + t) % p) as u32).collect();
                b.splice(q..q, block);
            }
            let alg = if alg == 2 { 0 } else { alg }; // LCS tables of this size are too large
            SeqCase::full(alg, a, b)
        }),
    ]
    .boxed()
}

// ------------------------------------------------------------------------------------------
// text cases

pub const TOKENIZERS: [&str; 5] = ["lines", "words", "chars", "unicode_words", "graphemes"];

#[derive(Clone, Debug, PartialEq, Eq, Hash, Serialize, Deserialize)]
pub struct TextCase {
    pub old: BStr,
    pub new: BStr,
    /// 0 lines, 1 words, 2 chars, 3 unicode words, 4 graphemes
    pub tok: u8,
    pub alg: u8,
    /// diff as [u8] (true) or as str (false; falls back to bytes if the text is not UTF-8)
    pub bytes: bool,
    #[serde(default)]
    pub opt: u8,
}

impl TextCase {
    pub fn use_bytes(&self) -> bool {
        self.bytes || self.old.as_str().is_none() || self.new.as_str().is_none()
    }
    pub fn has_invalid(&self) -> bool {
        self.old.as_str().is_none() || self.new.as_str().is_none()
    }
}

pub fn config(alg: u8) -> TextDiffConfig {
    let mut c = TextDiff::configure();
    c.algorithm(alg_of(alg));
    c
}

pub fn tokenize_str(tok: u8, s: &str) -> Vec<&str> {
    use similar::DiffableStr;
    match tok % 5 {
        0 => s.tokenize_lines(),
        1 => s.tokenize_words(),
        2 => s.tokenize_chars(),
        3 => s.tokenize_unicode_words(),
        _ => s.tokenize_graphemes(),
    }
}

pub fn tokenize_bytes(tok: u8, s: &[u8]) -> Vec<&[u8]> {
    use similar::DiffableStr;
    match tok % 5 {
        0 => s.tokenize_lines(),
        1 => s.tokenize_words(),
        2 => s.tokenize_chars(),
        3 => s.tokenize_unicode_words(),
        _ => s.tokenize_graphemes(),
    }
}

pub fn diff_str<'a>(cfg: &TextDiffConfig, tok: u8, old: &'a str, new: &'a str) -> TextDiff<'a, 'a, 'a, str> {
    match tok % 5 {
        0 => cfg.diff_lines(old, new),
        1 => cfg.diff_words(old, new),
        2 => cfg.diff_chars(old, new),
        3 => cfg.diff_unicode_words(old, new),
        _ => cfg.diff_graphemes(old, new),
    }
}

pub fn diff_bytes<'a>(cfg: &TextDiffConfig, tok: u8, old: &'a [u8], new: &'a [u8]) -> TextDiff<'a, 'a, 'a, [u8]> {
    match tok % 5 {
        0 => cfg.diff_lines(old, new),
        1 => cfg.diff_words(old, new),
        2 => cfg.diff_chars(old, new),
        3 => cfg.diff_unicode_words(old, new),
        _ => cfg.diff_graphemes(old, new),
    }
}

pub fn text_case(max_atoms: usize, invalid: bool) -> BoxedStrategy<TextCase> {
    (text_pair(max_atoms, invalid), 0u8..5, 0u8..3, any::<bool>(), 0u8..8)
        .prop_map(move |((old, new), tok, alg, bytes, opt)| TextCase { old, new, tok, alg, bytes: bytes || invalid, opt })
        .boxed()
}

/// mixture used by the text-level properties: valid str / valid bytes / invalid bytes; mostly
/// small, occasionally straddling the 100-token threshold
pub fn text_case_mix(big: usize) -> BoxedStrategy<TextCase> {
    prop_oneof![
        5 => text_case(12, false),
        3 => text_case(12, true),
        2 => text_case(40, false),
        1 => text_case(40, true),
        1 => text_case(big, false),
    ]
    .boxed()
}

/// line texts with 90..=max lines (straddles the 100-token switch)
pub fn big_line_case(max_lines: usize) -> BoxedStrategy<TextCase> {
    (line_text_pair_sized(90, max_lines, false), 0u8..3, any::<bool>(), 0u8..8)
        .prop_map(move |((old, new), alg, bytes, opt)| TextCase { old, new, tok: 0, alg, bytes, opt })
        .boxed()
}

/// 101..=max lines that are (almost) all distinct: exercises the integer mapping with many ids
pub fn distinct_line_case(max_lines: usize) -> BoxedStrategy<TextCase> {
    use proptest::collection::vec;
    (vec(0u32..1_000_000, 101..=max_lines), vec((0u8..4, any::<u16>(), 0u32..1_000_000), 0..=8), any::<bool>(), 0u8..3, any::<bool>(), 0u8..8)
        .prop_map(|(a, es, unrelated, alg, bytes, opt)| {
            let mut b: Vec<u32> = if unrelated { a.iter().map(|x| x.wrapping_mul(7).wrapping_add(3) % 1_000_003 + 1_000_000).collect() } else { a.clone() };
            for (kind, at, val) in es {
                let n = b.len();
                if n == 0 {
                    break;
                }
                let p = pos(at, n - 1);
                match kind {
                    0 => {
                        b.remove(p);
                    }
                    1 => b.insert(p, val + 2_000_000),
                    2 => b[p] = val + 2_000_000,
                    _ => {
                        let x = b[p];
                        b.insert(p, x);
                    }
                }
            }
            let render = |v: &[u32]| BStr(v.iter().map(|x| format!("row {}\n", x)).collect::<String>().into_bytes());
            // LCS keeps a quadratic table: keep it out of the biggest cases
            let alg = if alg == 2 && a.len() > 160 { 0 } else { alg };
            TextCase { old: render(&a), new: render(&b), tok: 0, alg, bytes, opt }
        })
        .boxed()
}

/// fixed huge line texts: more than 65 536 distinct lines (ids beyond 16 bits), once with 70 000
/// lines per side and once with both sides below 65 536 lines
pub fn huge_line_cases() -> Vec<TextCase> {
    let mut out = vec![];
    let line = |i: usize| format!("record {:07}\n", i);
    let old: String = (0..70_000).map(line).collect();
    let mut new_lines: Vec<String> = (0..70_000).map(line).collect();
    new_lines[65_537] = line(1);
    new_lines.remove(30_000);
    new_lines.insert(12, "inserted\n".to_string());
    out.push(TextCase { old: BStr(old.clone().into_bytes()), new: BStr(new_lines.concat().into_bytes()), tok: 0, alg: 0, bytes: false, opt: 3 });
    // both sides below 65 536 tokens but 66 000 distinct lines in total: 60 000 lines, a block of
    // 6 000 of them replaced by new distinct lines
    let a: String = (0..60_000).map(line).collect();
    let b: String = (0..27_000).map(line).chain((0..6_000).map(|i| format!("other {:07}\n", i))).chain((33_000..60_000).map(line)).collect();
    out.push(TextCase { old: BStr(a.into_bytes()), new: BStr(b.into_bytes()), tok: 0, alg: 1, bytes: true, opt: 0 });
    // a common head and tail around 1100 x 1100 unrelated distinct lines (an LCS table of more than
    // 2^20 cells; a shortest script of 2200 edits), once per algorithm
    for alg in 0..3u8 {
        let head = "head 1\nhead 2\nhead 3\n";
        let tail = "tail 1\ntail 2\n";
        let a: String = std::iter::once(head.to_string()).chain((0..1100).map(|i| format!("old {:05}\n", i))).chain(std::iter::once(tail.to_string())).collect();
        let b: String = std::iter::once(head.to_string()).chain((0..1100).map(|i| format!("new {:05}\n", i))).chain(std::iter::once(tail.to_string())).collect();
        out.push(TextCase { old: BStr(a.into_bytes()), new: BStr(b.into_bytes()), tok: 0, alg, bytes: alg == 1, opt: 0 });
    }
    out
}

pub fn line_case(max_lines: usize, invalid: bool) -> BoxedStrategy<TextCase> {
    (line_text_pair(max_lines, invalid), 0u8..3, any::<bool>(), 0u8..8)
        .prop_map(move |((old, new), alg, bytes, opt)| TextCase { old, new, tok: 0, alg, bytes: bytes || invalid, opt })
        .boxed()
}

/// Aliased views (texts that share memory): both texts are sub-slices of ONE buffer (`c.old`), e.g.
/// a document and its truncated copy.  The length of `c.new` selects the shape and the cut point;
/// cuts are moved down to a char boundary when the buffer is valid UTF-8.
pub fn alias_views(c: &TextCase) -> (std::ops::Range<usize>, std::ops::Range<usize>) {
    let buf = &c.old.0;
    let n = buf.len();
    let sel = c.new.0.len();
    let mut cut = if n == 0 { 0 } else { (sel * 7 + 3) % (n + 1) };
    if let Some(s) = c.old.as_str() {
        while !s.is_char_boundary(cut) {
            cut -= 1;
        }
    }
    match sel % 4 {
        0 => (0..n, 0..cut),   // new is a truncated view of old (same start address)
        1 => (0..cut, 0..n),   // old is a truncated view of new
        2 => (0..n, cut..n),   // new is a tail view of old (same end address)
        _ => (0..cut, cut..n), // adjacent views
    }
}

/// A history of other queries on one diff object (answers ignored).  Every query of the text-level
/// API is a pure function of the diff, so whatever was asked before, the judged query that follows
/// must give the answer a fresh object gives; a stale cache or cursor on the object shows up there.
/// `sel` picks the history (0 = none).
pub fn exercise<'a, T: similar::DiffableStr + ?Sized + 'a>(d: &'a TextDiff<'a, 'a, 'a, T>, sel: u8) {
    if sel % 4 == 0 {
        return;
    }
    let ops = d.ops().to_vec();
    for step in 0..3u8 {
        match (sel / 4 + step * 3 + sel) % 7 {
            0 => {
                let _ = d.ratio();
            }
            1 => {
                let _ = d.grouped_ops((sel % 3) as usize);
            }
            2 => {
                let _ = d.iter_all_changes().count();
            }
            3 => {
                let _ = d.unified_diff().context_radius((sel % 5) as usize).header("a", "b").to_string();
            }
            4 => {
                if let Some(op) = ops.get((sel as usize) % ops.len().max(1)) {
                    let _ = d.iter_changes(op).count();
                    let _ = d.iter_inline_changes_deadline(op, None).count();
                }
            }
            5 => {
                // a partially consumed iterator that is dropped
                let mut it = d.iter_all_changes();
                let _ = it.next();
                let _ = it.next();
            }
            _ => {
                for op in ops.iter().rev().take(2) {
                    let _ = d.iter_changes(op).last();
                }
                let _ = d.grouped_ops(usize::MAX);
            }
        }
    }
}

/// Every std consumer an `Iterator` offers must agree with the plain `next()` walk `want`, also on
/// an iterator that was advanced by hand first: the crate's iterators may override any of them
/// (count, last, nth, fold, size_hint ...), and callers use them directly.  `mk` makes a fresh
/// iterator, `tup` turns an item into a comparable value; `j0` is one more hand-advance distance.
/// The methods are called on the crate's iterator ITSELF (no map() in front, which would route
/// count/last through fold and hide an override).
pub fn consumers_agree<I, X, F, G>(what: &str, mk: F, tup: G, want: &[X], j0: usize) -> Result<(), String>
where
    I: Iterator,
    F: Fn() -> I,
    G: Fn(I::Item) -> X,
    X: PartialEq + std::fmt::Debug + Clone,
{
    let n = want.len();
    let mut js = vec![0usize, 1, 2, j0 % (n + 1), n.saturating_sub(1), n];
    js.dedup();
    for j in js {
        let j = j.min(n);
        let advanced = || {
            let mut it = mk();
            for _ in 0..j {
                it.next();
            }
            it
        };
        let rest = &want[j..];
        let ctx = |m: &str| format!("{}: after {} next() calls, {}", what, j, m);
        let (lo, hi) = advanced().size_hint();
        if lo > rest.len() || hi.map_or(false, |h| h < rest.len()) {
            return Err(ctx(&format!("size_hint {:?} does not bracket the {} remaining items", (lo, hi), rest.len())));
        }
        let c = advanced().count();
        if c != rest.len() {
            return Err(ctx(&format!("count() = {}, expected {}", c, rest.len())));
        }
        let l = advanced().last().map(&tup);
        if l.as_ref() != rest.last() {
            return Err(ctx(&format!("last() = {:?}, expected {:?}", l, rest.last())));
        }
        for k in [0usize, 1, 3, rest.len().saturating_sub(1), rest.len()] {
            let mut it = advanced();
            let g = it.nth(k).map(&tup);
            if g.as_ref() != rest.get(k) {
                return Err(ctx(&format!("nth({}) = {:?}, expected {:?}", k, g, rest.get(k))));
            }
            // and the walk goes on right behind it
            let g2 = it.next().map(&tup);
            if k < rest.len() && g2.as_ref() != rest.get(k + 1) {
                return Err(ctx(&format!("next() after nth({}) = {:?}, expected {:?}", k, g2, rest.get(k + 1))));
            }
        }
        let folded = advanced().fold(vec![], |mut v, c| {
            v.push(tup(c));
            v
        });
        if folded[..] != *rest {
            return Err(ctx(&format!("fold() yields {:?}, expected {:?}", folded, rest)));
        }
        let mut each = vec![];
        advanced().for_each(|c| each.push(tup(c)));
        if each[..] != *rest {
            return Err(ctx(&format!("for_each() yields {:?}, expected {:?}", each, rest)));
        }
        let collected: Vec<I::Item> = advanced().collect();
        let collected: Vec<X> = collected.into_iter().map(&tup).collect();
        if collected[..] != *rest {
            return Err(ctx(&format!("collect() yields {:?}, expected {:?}", collected, rest)));
        }
        // (consumers that would call next() again after a None are only used where the Iterator
        // contract defines the outcome: on a rest that is long enough)
        if !rest.is_empty() {
            let skipped: Vec<I::Item> = advanced().skip(1).collect();
            let skipped: Vec<X> = skipped.into_iter().map(&tup).collect();
            if skipped[..] != rest[1..] {
                return Err(ctx(&format!("skip(1) yields {:?}", skipped)));
            }
        }
        let stepped: Vec<I::Item> = advanced().step_by(2).collect();
        let stepped: Vec<X> = stepped.into_iter().map(&tup).collect();
        let want_stepped: Vec<X> = rest.iter().step_by(2).cloned().collect();
        if stepped != want_stepped {
            return Err(ctx(&format!("step_by(2) yields {:?}, expected {:?}", stepped, want_stepped)));
        }
        if rest.len() >= 2 {
            let mut it = advanced();
            let head: Vec<I::Item> = it.by_ref().take(2).collect();
            let tail: Vec<I::Item> = it.collect();
            let both: Vec<X> = head.into_iter().chain(tail).map(&tup).collect();
            if both[..] != *rest {
                return Err(ctx(&format!("by_ref().take(2) then the rest yields {:?}, expected {:?}", both, rest)));
            }
        }
        let mut pk = advanced().peekable();
        let _ = pk.peek();
        let pc = pk.count();
        if pc != rest.len() {
            return Err(ctx(&format!("a peeked Peekable counts {}, expected {}", pc, rest.len())));
        }
        let mut pk = advanced().peekable();
        let _ = pk.peek();
        let pl = pk.last().map(&tup);
        if pl.as_ref() != rest.last() {
            return Err(ctx(&format!("a peeked Peekable's last() = {:?}, expected {:?}", pl, rest.last())));
        }
        let pos = advanced().position(|_| false);
        if pos.is_some() {
            return Err(ctx("position(never) found something"));
        }
        // the walk ends where the reference ends
        let mut it = advanced();
        for _ in 0..rest.len() {
            it.next();
        }
        if it.next().is_some() {
            return Err(ctx("next() yields more items than the reference expansion holds"));
        }
    }
    Ok(())
}

/// A deadline dimension for text-diff checks whose property is not about deadlines: one case in six
/// builds its TextDiff under a deadline that has already passed (selector 10) or that runs out at one
/// of the first probes of the (virtual) clock (selector 11) - the approximation is a text diff like
/// any other.  Derived from the case content so that existing replay files keep their meaning.
/// Returns the virtual-clock setting to install around the diff call (and to uninstall after it).
pub fn deadline_dimension(c: &TextCase, cfg: &mut TextDiffConfig) -> (Option<u64>, bool) {
    let sel = (c.old.0.len() * 7 + c.new.0.len() * 3 + c.tok as usize + c.alg as usize) % 12;
    match sel {
        10 => {
            if let Some(past) = Instant::now().checked_sub(Duration::from_secs(5)) {
                cfg.deadline(past);
            }
            (None, true)
        }
        11 => {
            cfg.deadline(far_future());
            (Some(1 + (c.old.0.len() % 4) as u64), true)
        }
        _ => (None, false),
    }
}

/// diffs with thousands of ops in one script (beyond 4096 raw ops): every third item removed,
/// an item inserted after every third, every fourth replaced - Myers and Patience
pub fn many_ops_cases() -> Vec<SeqCase> {
    let mut out = vec![];
    for alg in 0..2u8 {
        let a: Vec<u32> = (0..7000).collect();
        let b: Vec<u32> = a.iter().cloned().filter(|x| x % 3 != 1).collect();
        out.push(SeqCase::full(alg, a, b));
        let a: Vec<u32> = (0..6000).collect();
        let mut b = vec![];
        for x in &a {
            b.push(*x);
            if x % 3 == 2 {
                b.push(1_000_000 + x);
            }
        }
        out.push(SeqCase::full(alg, a, b));
        let a: Vec<u32> = (0..5000).collect();
        let b: Vec<u32> = a.iter().map(|x| if x % 4 == 1 { 2_000_000 + x } else { *x }).collect();
        out.push(SeqCase::full(alg, a, b));
    }
    out
}

/// Texts with exactly N tokens on the old side and N + 1 on the new side for N at and around the powers
/// of two from 64 to 8192 (one token replaced in the middle, one appended), for the line, word and
/// char tokenizers and every algorithm (LCS up to 1025 tokens): size thresholds inside the text paths
pub fn pow2_text_cases() -> Vec<TextCase> {
    let mut out = vec![];
    for k in 6..=13u32 {
        for d in [-1i64, 0, 1] {
            let n = ((1i64 << k) + d) as usize;
            for tok in 0..3u8 {
                let token = |i: usize| -> String {
                    match tok {
                        0 => format!("l{}\n", i % 97),
                        1 => {
                            if i % 2 == 0 {
                                format!("w{}", (i / 2) % 50)
                            } else {
                                " ".to_string()
                            }
                        }
                        _ => ["a", "b", "\u{e9}", "c", "\u{65e5}"][i % 5].to_string(),
                    }
                };
                let old_t: Vec<String> = (0..n).map(token).collect();
                let mut new_t = old_t.clone();
                let mid = (n / 2) & !1; // an even index: a word, not a separator
                new_t[mid] = match tok {
                    0 => "changed\n".to_string(),
                    1 => "CHANGED".to_string(),
                    _ => "z".to_string(),
                };
                new_t.push(match tok {
                    0 => "tail\n".to_string(),
                    1 => {
                        if n % 2 == 0 {
                            "tail".to_string()
                        } else {
                            " ".to_string()
                        }
                    }
                    _ => "y".to_string(),
                });
                for alg in 0..3u8 {
                    if alg == 2 && n > 1025 {
                        continue;
                    }
                    out.push(TextCase { old: BStr(old_t.concat().into_bytes()), new: BStr(new_t.concat().into_bytes()), tok, alg, bytes: n % 2 == 0, opt: 0 });
                }
            }
        }
    }
    out
}

/// Sequences of exactly N / N + 1 items for N at and around the powers of two from 64 to 8192 (one
/// item replaced in the middle, one appended; a 7-letter alphabet, so repeats abound), per algorithm
/// (LCS up to `lcs_max` items): size thresholds inside the algorithms and the clean-up
pub fn pow2_seq_cases(lcs_max: usize) -> Vec<SeqCase> {
    let mut out = vec![];
    for k in 6..=13u32 {
        for d in [-1i64, 0, 1] {
            let n = ((1i64 << k) + d) as usize;
            let a = lcg_seq(100 + n as u64, n, 7);
            let mut b = a.clone();
            b[n / 2] = 9;
            b.push(8);
            for alg in 0..3u8 {
                if alg == 2 && n > lcs_max {
                    continue;
                }
                out.push(SeqCase::full(alg, a.clone(), b.clone()));
            }
        }
    }
    out
}
