//! C20 — diffs are deterministic and depend only on the equality pattern of the items.

use super::common::*;
use crate::core::*;
use crate::gen::*;
use crate::oracle::*;
use crate::oracle::items;
use proptest::prelude::*;
use serde::{Deserialize, Serialize};
use similar::{capture_diff, capture_diff_slices, DiffOp};

pub struct C20;

#[derive(Clone, Debug, Serialize, Deserialize)]
pub enum Case {
    Seq(SeqCase),
    Text(TextCase),
}

fn run_u32(c: &SeqCase) -> Vec<DiffOp> {
    capture_diff(alg_of(c.alg), &c.old[..], c.old_r(), &c.new[..], c.new_r())
}

fn check_seq(c: &SeqCase, reps: usize, obs: &mut Obs) -> Verdict {
    let base = match guard(|| run_u32(c)) {
        Ok(o) => o,
        Err(p) => return Verdict::Fail(format!("capture_diff: {}", p)),
    };
    let mut execs = 1u64;
    // repeated executions in this thread: every HashMap::new() draws fresh keys
    for r in 0..reps {
        match guard(|| run_u32(c)) {
            Ok(o) if o == base => {}
            Ok(o) => return Verdict::Fail(format!("{}: repetition {} gives {:?}, the first run gave {:?}", alg_name(c.alg), r, o, base)),
            Err(p) => return Verdict::Fail(format!("capture_diff: {}", p)),
        }
        execs += 1;
    }
    // freshly spawned threads (fresh hasher seeds)
    let threads = 4;
    let outs: Vec<Option<Vec<DiffOp>>> = std::thread::scope(|s| {
        let hs: Vec<_> = (0..threads).map(|_| s.spawn(|| std::panic::catch_unwind(std::panic::AssertUnwindSafe(|| run_u32(c))).ok())).collect();
        hs.into_iter().map(|h| h.join().ok().flatten()).collect()
    });
    for (t, o) in outs.into_iter().enumerate() {
        execs += 1;
        match o {
            Some(o) if o == base => {}
            Some(o) => return Verdict::Fail(format!("{}: thread {} gives {:?}, the main run gave {:?}", alg_name(c.alg), t, o, base)),
            None => return Verdict::Fail("capture_diff panicked in a spawned thread".into()),
        }
    }
    // the same with a deadline that has already passed (the approximation taken at the first
    // deadline check is a function of the inputs too): repeated calls and fresh threads agree
    if let Some(past) = std::time::Instant::now().checked_sub(std::time::Duration::from_secs(5)) {
        let run_past = || similar::capture_diff_deadline(alg_of(c.alg), &c.old[..], c.old_r(), &c.new[..], c.new_r(), Some(past));
        let first = match guard(run_past) {
            Ok(o) => o,
            Err(p) => return Verdict::Fail(format!("capture_diff_deadline with a passed deadline: {}", p)),
        };
        for r in 0..4 {
            match guard(run_past) {
                Ok(o) if o == first => {}
                Ok(o) => return Verdict::Fail(format!("{}: with a deadline that has already passed, repetition {} gives {:?}, the first call gave {:?}", alg_name(c.alg), r, o, first)),
                Err(p) => return Verdict::Fail(format!("capture_diff_deadline with a passed deadline: {}", p)),
            }
        }
        let outs: Vec<Option<Vec<DiffOp>>> = std::thread::scope(|s| {
            let hs: Vec<_> = (0..1).map(|_| s.spawn(|| std::panic::catch_unwind(std::panic::AssertUnwindSafe(run_past)).ok())).collect();
            hs.into_iter().map(|h| h.join().ok().flatten()).collect()
        });
        for o in outs {
            if o.as_ref() != Some(&first) {
                return Verdict::Fail(format!("{}: with a deadline that has already passed, a fresh thread gives {:?}, this thread gave {:?}", alg_name(c.alg), o, first));
            }
        }
        execs += 6;
    }
    // after diffs on this thread that were aborted by a failing hook or ran out of time in mid-run
    // (same algorithm; the inputs swapped, and a fixed 48 x 40 pair), the call gives what it gave
    {
        let k = c.old.len() % 4;
        let _ = guard(|| poison_thread(alg_of(c.alg), &c.new, &c.old, k));
        similar::verif::clock::install(None);
        match guard(|| run_u32(c)) {
            Ok(o) if o == base => {}
            Ok(o) => return Verdict::Fail(format!("{}: after an aborted diff and diffs that ran out of time on the same thread, the call gives {:?}, before it gave {:?}", alg_name(c.alg), o, base)),
            Err(p) => return Verdict::Fail(format!("capture_diff after aborted diffs: {}", p)),
        }
        execs += 4;
    }
    // two windows of ONE buffer give the ops that the same windows of two separate copies give
    if !c.old.is_empty() {
        let buf = &c.old;
        let cl = |x: usize| x.min(buf.len());
        let nr2 = (cl(c.nr.0).min(cl(c.nr.1)), cl(c.nr.1));
        let copy = buf.clone();
        match (
            guard(|| capture_diff(alg_of(c.alg), &buf[..], c.old_r(), &buf[..], nr2.0..nr2.1)),
            guard(|| capture_diff(alg_of(c.alg), &buf[..], c.old_r(), &copy[..], nr2.0..nr2.1)),
        ) {
            (Ok(a), Ok(b)) if a == b => {}
            (Ok(a), Ok(b)) => return Verdict::Fail(format!("{}: the windows {:?} and {:?} of ONE buffer {:?} give {:?}, the same windows of two separate copies give {:?}", alg_name(c.alg), c.or, nr2, buf, a, b)),
            (Err(p), _) | (_, Err(p)) => return Verdict::Fail(format!("capture_diff over two windows of one buffer: {}", p)),
        }
        execs += 2;
    }
    // order-preserving injective relabellings: other values, hashes and types
    let f = |x: u32| (x as u64) * 7919 + 13;
    let (o64, n64): (Vec<u64>, Vec<u64>) = (c.old.iter().map(|x| f(*x)).collect(), c.new.iter().map(|x| f(*x)).collect());
    match guard(|| capture_diff(alg_of(c.alg), &o64[..], c.old_r(), &n64[..], c.new_r())) {
        Ok(o) if o == base => {}
        Ok(o) => return Verdict::Fail(format!("{}: relabelling x -> 7919x+13 (u64) gives {:?}, original items give {:?}", alg_name(c.alg), o, base)),
        Err(p) => return Verdict::Fail(format!("capture_diff over u64: {}", p)),
    }
    let g = |x: u32| format!("item-{:010}", x);
    let (os, ns): (Vec<String>, Vec<String>) = (c.old.iter().map(|x| g(*x)).collect(), c.new.iter().map(|x| g(*x)).collect());
    match guard(|| capture_diff(alg_of(c.alg), &os[..], c.old_r(), &ns[..], c.new_r())) {
        Ok(o) if o == base => {}
        Ok(o) => return Verdict::Fail(format!("{}: relabelling to zero-padded strings gives {:?}, original items give {:?}", alg_name(c.alg), o, base)),
        Err(p) => return Verdict::Fail(format!("capture_diff over String: {}", p)),
    }
    // lawful but coarse Hash (only two bits of the value reach the hasher): collisions must not matter
    let (oc, nc): (Vec<items::Coarse>, Vec<items::Coarse>) = (c.old.iter().map(|x| items::Coarse(*x)).collect(), c.new.iter().map(|x| items::Coarse(*x)).collect());
    match guard(|| capture_diff(alg_of(c.alg), &oc[..], c.old_r(), &nc[..], c.new_r())) {
        Ok(o) if o == base => {}
        Ok(o) => return Verdict::Fail(format!("{}: items whose Hash sees only 2 bits give {:?}, u32 items give {:?}", alg_name(c.alg), o, base)),
        Err(p) => return Verdict::Fail(format!("capture_diff over coarse-hash items: {}", p)),
    }
    // different element types on the two sides (new: PartialEq<old>), hashing differently
    let oa: Vec<u64> = c.old.iter().map(|x| *x as u64).collect();
    let na: Vec<items::Id32> = c.new.iter().map(|x| items::Id32(*x)).collect();
    match guard(|| capture_diff(alg_of(c.alg), &oa[..], c.old_r(), &na[..], c.new_r())) {
        Ok(o) if o == base => {}
        Ok(o) => return Verdict::Fail(format!("{}: old items u64 / new items Id32 (PartialEq<u64>, different Hash) give {:?}, u32 items give {:?}", alg_name(c.alg), o, base)),
        Err(p) => return Verdict::Fail(format!("capture_diff over asymmetric item types: {}", p)),
    }
    execs += 2;
    if c.is_full() {
        match guard(|| capture_diff_slices(alg_of(c.alg), &os, &ns)) {
            Ok(o) if o == base => {}
            Ok(o) => return Verdict::Fail(format!("capture_diff_slices over strings gives {:?}, capture_diff gives {:?}", o, base)),
            Err(p) => return Verdict::Fail(format!("capture_diff_slices: {}", p)),
        }
    }
    execs += 3;
    // a text diff over caller-defined tokens that compare by a key only (every occurrence has a
    // different text): the ops may depend on the equality pattern alone
    if c.is_full() {
        use crate::oracle::keyed::Keyed;
        let ko: Vec<Keyed> = c.old.iter().enumerate().map(|(i, x)| Keyed { key: *x, text: format!("k{} old #{}", x, i) }).collect();
        let kn: Vec<Keyed> = c.new.iter().enumerate().map(|(j, x)| Keyed { key: *x, text: format!("K{} NEW #{}", x, j) }).collect();
        let (ro, rn): (Vec<&Keyed>, Vec<&Keyed>) = (ko.iter().collect(), kn.iter().collect());
        match guard(|| similar::TextDiff::configure().algorithm(alg_of(c.alg)).diff_slices(&ro, &rn).ops().to_vec()) {
            Ok(o) if o == base => {}
            Ok(o) => return Verdict::Fail(format!("{}: a text diff over caller-defined tokens that compare by key gives {:?}, u32 items with the same equality pattern give {:?}", alg_name(c.alg), o, base)),
            Err(p) => return Verdict::Fail(format!("TextDiff::diff_slices over caller-defined tokens: {}", p)),
        }
        execs += 1;
    }
    obs.executions = execs;
    // how many unique common items (Patience / hashing actually involved)
    let mut cnt: std::collections::HashMap<u32, (u32, u32)> = std::collections::HashMap::new();
    for x in c.old_slice() {
        cnt.entry(*x).or_insert((0, 0)).0 += 1;
    }
    for x in c.new_slice() {
        cnt.entry(*x).or_insert((0, 0)).1 += 1;
    }
    let uniq = cnt.values().filter(|v| **v == (1, 1)).count();
    obs.nontrivial = uniq >= 3 && base.len() >= 2;
    obs.class(alg_name(c.alg));
    obs.class_if(uniq >= 3, ">= 3 unique common items");
    obs.class_if(uniq >= 8, ">= 8 unique common items");
    obs.class_if(uniq > 100, "> 100 unique common items");
    obs.class_if(uniq > 1000, "> 1000 unique common items");
    Verdict::Pass
}

fn check_text(c: &TextCase, reps: usize, obs: &mut Obs) -> Verdict {
    // str vs bytes for lines / words / chars (valid UTF-8 only)
    let (o, n) = match (c.old.as_str(), c.new.as_str()) {
        (Some(o), Some(n)) => (o, n),
        _ => return Verdict::Pass,
    };
    let tok = [0u8, 1, 2][(c.tok % 3) as usize];
    let cfg = config(c.alg);
    let r = guard(|| {
        let ds = diff_str(&cfg, tok, o, n);
        let db = diff_bytes(&cfg, tok, o.as_bytes(), n.as_bytes());
        (ds.ops().to_vec(), db.ops().to_vec(), ds.old_slices().len().max(ds.new_slices().len()))
    });
    let (so, bo, ntok) = match r {
        Ok(x) => x,
        Err(p) => return Verdict::Fail(format!("text diff: {}", p)),
    };
    if so != bo {
        return Verdict::Fail(format!("{} {}: str ops {:?} != [u8] ops {:?}", alg_name(c.alg), TOKENIZERS[tok as usize], so, bo));
    }
    for r in 0..reps {
        match guard(|| diff_str(&cfg, tok, o, n).ops().to_vec()) {
            Ok(x) if x == so => {}
            Ok(x) => return Verdict::Fail(format!("{} {}: repetition {} gives {:?}, first run {:?}", alg_name(c.alg), TOKENIZERS[tok as usize], r, x, so)),
            Err(p) => return Verdict::Fail(format!("text diff: {}", p)),
        }
    }
    // two views of ONE buffer (same start, same number of tokens, the last token cut short) give the
    // ops that separate copies of the two texts give
    if o.len() >= 2 {
        let mut cut = o.len() - 1;
        while !o.is_char_boundary(cut) {
            cut -= 1;
        }
        let (va, vb) = (&o[..cut], o);
        let (ca, cb) = (va.to_string(), vb.to_string());
        match (guard(|| diff_str(&cfg, tok, va, vb).ops().to_vec()), guard(|| diff_str(&cfg, tok, &ca, &cb).ops().to_vec())) {
            (Ok(a), Ok(b)) if a == b => {}
            (Ok(a), Ok(b)) => return Verdict::Fail(format!("{} {}: a text and the view of it that is one character shorter (same buffer) give {:?}, separate copies give {:?}", alg_name(c.alg), TOKENIZERS[tok as usize], a, b)),
            (Err(p), _) | (_, Err(p)) => return Verdict::Fail(format!("text diff over two views of one buffer: {}", p)),
        }
    }
    // fresh threads (fresh hasher keys), str and [u8]
    {
        let outs: Vec<Option<(Vec<DiffOp>, Vec<DiffOp>)>> = std::thread::scope(|s| {
            let hs: Vec<_> = (0..2)
                .map(|_| {
                    s.spawn(|| {
                        std::panic::catch_unwind(std::panic::AssertUnwindSafe(|| {
                            let cfg = config(c.alg);
                            (diff_str(&cfg, tok, o, n).ops().to_vec(), diff_bytes(&cfg, tok, o.as_bytes(), n.as_bytes()).ops().to_vec())
                        }))
                        .ok()
                    })
                })
                .collect();
            hs.into_iter().map(|h| h.join().ok().flatten()).collect()
        });
        for x in outs {
            match x {
                Some((a, b)) if a == so && b == so => {}
                other => return Verdict::Fail(format!("{} {}: a fresh thread gives {:?}, this thread gave {:?}", alg_name(c.alg), TOKENIZERS[tok as usize], other, so)),
            }
        }
    }
    // one configuration object and the same two String buffers used for an earlier diff of other
    // texts of the same lengths (buffers cleared and refilled in place: same address, same length)
    {
        let other = |s: &str| -> String {
            let mut ls: Vec<&str> = s.split_inclusive('\n').collect();
            ls.reverse();
            let mut v = ls.concat();
            // move the last line break (if any) so that line boundaries differ but the length does not
            if let Some(p) = v.rfind('\n') {
                if p > 0 && v.is_char_boundary(p - 1) && v.as_bytes()[p - 1].is_ascii() {
                    let mut b = v.into_bytes();
                    b.swap(p - 1, p);
                    v = String::from_utf8(b).unwrap_or_default();
                }
            }
            v
        };
        let (vo, vn) = (other(o), other(n));
        if vo.len() == o.len() && vn.len() == n.len() {
            let mut bo = String::with_capacity(o.len().max(1));
            let mut bn = String::with_capacity(n.len().max(1));
            bo.push_str(&vo);
            bn.push_str(&vn);
            let r = guard(|| {
                let _ = diff_str(&cfg, tok, &bo, &bn).ops().len();
            });
            bo.clear();
            bo.push_str(o);
            bn.clear();
            bn.push_str(n);
            let again = guard(|| diff_str(&cfg, tok, &bo, &bn).ops().to_vec());
            match (r, again) {
                (Ok(()), Ok(x)) if x == so => {}
                (Ok(()), Ok(x)) => return Verdict::Fail(format!("{} {}: the same configuration object and the same (refilled) String buffers used a second time give {:?}, a fresh diff gives {:?}", alg_name(c.alg), TOKENIZERS[tok as usize], x, so)),
                (Err(p), _) | (_, Err(p)) => return Verdict::Fail(format!("text diff over reused buffers: {}", p)),
            }
        }
    }
    obs.executions = 4 + reps as u64;
    obs.nontrivial = ntok > 100 && so.len() >= 2;
    obs.class("text: str vs [u8]");
    obs.class_if(ntok > 100, "text: > 100 tokens (IdentifyDistinct path)");
    Verdict::Pass
}

fn strat(tier: Tier) -> BoxedStrategy<Case> {
    // 520-1500 items per side of which only a few percent are common (every p-th item, p in 17..60): a
    // shortcut that samples the inputs would see "nothing in common" on some runs only
    let sparse = (520usize..=tier.pick(620, 900), 17usize..60, 0usize..17, 0u8..3).prop_map(|(n, p, r, alg)| {
        let old: Vec<u32> = (0..n as u32).map(|i| 2 * i).collect();
        let new: Vec<u32> = (0..n as u32).map(|i| if (i as usize) % p == r { 2 * i } else { 2 * i + 1 }).collect();
        Case::Seq(SeqCase::full(if alg == 2 { 0 } else { alg }, old, new))
    });
    // many unique items so that hash iteration order could matter
    let uniq_heavy = (proptest::collection::vec(0u32..60, 0..=tier.pick(60usize, 150)), proptest::collection::vec((0u8..8, any::<u16>(), 1u8..6, 0u32..64), 0..=8), 0u8..3, raw_ranges(true)).prop_map(|(a, es, alg, rr)| {
        let b = {
            let mut v = a.clone();
            for (kind, at, len, val) in es {
                let n = v.len();
                match kind % 4 {
                    0 if n > 0 => {
                        let p = pos(at, n - 1);
                        let l = (len as usize).min(n - p);
                        v.drain(p..p + l);
                    }
                    1 => v.insert(pos(at, n), 100 + val),
                    2 if n > 1 => {
                        let p = pos(at, n - 1);
                        let l = (len as usize).min(n - p);
                        let run: Vec<u32> = v.drain(p..p + l).collect();
                        let q = pos(at.wrapping_mul(13), v.len());
                        for (i, x) in run.into_iter().enumerate() {
                            v.insert(q + i, x);
                        }
                    }
                    3 if n > 1 => {
                        let p = pos(at, n - 1);
                        let l = (len as usize).min(n - p);
                        v[p..p + l].reverse();
                    }
                    _ => {}
                }
            }
            v
        };
        let (or, nr) = ranges_from(rr, a.len(), b.len());
        SeqCase { alg, old: a, new: b, or, nr, mode: 0, k: None }
    });
    // more than 100 items per side WITH repeats and a long common head and tail (an item can be
    // unique between head and tail although it recurs inside them)
    let long_repeats = (prop_oneof![Just(30u32), Just(80), Just(250)], proptest::collection::vec(0u32..1000, 101..=tier.pick(260usize, 500)), proptest::collection::vec((0u8..4, any::<u16>(), 1u8..6, 0u32..1000), 1..=8), 0u8..3).prop_map(|(k, a, es, alg)| {
        let a: Vec<u32> = a.into_iter().map(|x| x % k).collect();
        let mut b = a.clone();
        for (kind, at, len, val) in es {
            let n = b.len();
            if n < 2 {
                break;
            }
            // edits stay in the middle third so that a common head and tail survive
            let p = n / 3 + pos(at, n / 3);
            let l = (len as usize).min(n - p);
            match kind {
                0 => {
                    b.drain(p..p + l);
                }
                1 => b.insert(p, val % k),
                2 => {
                    let run: Vec<u32> = b.drain(p..p + l).collect();
                    let q = n / 3 + pos(at.wrapping_mul(13), (b.len() - n / 3).min(n / 3));
                    for (i, x) in run.into_iter().enumerate() {
                        b.insert(q + i, x);
                    }
                }
                _ => b[p..p + l].reverse(),
            }
        }
        // LCS tables of this size are slow: Myers and Patience only
        SeqCase::full(if alg == 2 { 1 } else { alg }, a, b)
    });
    // (left out of the coverage-guided stage, where every input stands for about twenty executions and
    // the fuzzer would spend most of its runs on this heavy family)
    let sparse = if std::env::var_os("VCHECK_FUZZ_STAGE").is_some() { seq_case(30, true, 1).prop_map(Case::Seq).boxed() } else { sparse.boxed() };
    prop_oneof![
        1 => sparse,
        16 => uniq_heavy.prop_map(Case::Seq),
        6 => long_repeats.prop_map(Case::Seq),
        // more than 100 unique items per side with crossing anchors
        // more than 1000 unique items per side (size-gated code paths)
        1 => (perm_pair(1030, tier.pick(1400, 2600)), 0u8..2).prop_map(|((a, b), alg)| Case::Seq(SeqCase::full(alg, a, b))),
        8 => (perm_pair(90, tier.pick(220, 400)), 0u8..3).prop_map(|((a, b), alg)| Case::Seq(SeqCase::full(if alg == 2 { 1 } else { alg }, a, b))),
        8 => seq_case(tier.pick(60, 150), true, 1).prop_map(Case::Seq),
        4 => text_case(12, false).prop_map(Case::Text),
        4 => text_case(tier.pick(130, 200), false).prop_map(Case::Text),
        4 => line_case(tier.pick(120, 200), false).prop_map(Case::Text),
    ]
    .boxed()
}

impl Prop for C20 {
    type Case = Case;
    const ID: &'static str = "C20";
    fn rule() -> String {
        "cases = Seq(algorithm, old, new, ranges) biased to many unique items with block moves and reversals (so hash-map iteration order could matter) | Text(old, new valid UTF-8, tokenizer in {lines, words, chars}, algorithm), sizes below and above 100 tokens. Each Seq case is executed 1 + 8 times in the same thread and in 4 freshly spawned threads (every HashMap::new() and every new thread draws fresh hasher keys), and under two order-preserving injective relabellings (u64 x -> 7919x+13, zero-padded Strings), with items whose lawful Hash only sees two bits of the value, and with different element types on the two sides (old u64, new Id32: PartialEq<u64> with an unrelated Hash); all op lists must be identical; with a deadline that has already passed, 5 calls in this thread and a fresh thread must agree as well; after a diff aborted by a failing hook and two diffs that ran out of time in mid-run on the same thread the call must give the same ops again; full-range cases are also diffed as a TEXT diff (TextDiffConfig::diff_slices) over caller-defined DiffableStr tokens that compare by a key only while every occurrence has a different text. Families include sequences of 101-260/500 items with repeats and a long common head and tail, permutations of 90-400 and of 1030-1400/2600 distinct items, and 520-620/900 items per side of which only every 17th-59th is common. two windows of ONE buffer must give the ops of the same windows of two copies. Text: str ops == [u8] ops, repeated runs identical, and a configuration object plus two String buffers that were used for an earlier diff of other texts of the same lengths (refilled in place) give the ops of a fresh diff. Non-trivial = >= 3 unique common items and >= 2 ops (Seq) / > 100 tokens (Text); distinct = distinct serialized case.".into()
    }
    fn assumptions() -> Vec<String> {
        vec![
            "the hasher seed is the one source of randomness the harness does not own: on a correct tree the result cannot depend on it (no flakiness); on a tree that leaks hash order detection is probabilistic per input".into(),
            "replay re-runs the stored input with 64 repetitions".into(),
        ]
    }
    fn stages(tier: Tier) -> Vec<Stage<Case>> {
        vec![Stage { name: "random", kind: StageKind::Random { strategy: strat, cases: tier.pick(16_000, 200_000) } }]
    }
    fn check(case: &Case, obs: &mut Obs) -> Verdict {
        match case {
            Case::Seq(c) => check_seq(c, 8, obs),
            Case::Text(c) => check_text(c, 2, obs),
        }
    }
    fn check_replay(case: &Case, obs: &mut Obs) -> Verdict {
        match case {
            Case::Seq(c) => check_seq(c, 64, obs),
            Case::Text(c) => check_text(c, 16, obs),
        }
    }
}
