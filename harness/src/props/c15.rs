//! C15 — Patience keeps a maximum in-order set of unique common items.

use super::common::*;
use crate::core::*;
use crate::gen::*;
use crate::oracle::*;
use crate::oracle::items;
use proptest::prelude::*;
use similar::DiffOp;
use std::collections::HashMap;

pub struct C15;

/// positions (old_i, new_j) of the items occurring exactly once in each range
fn unique_common(os: &[u32], ns: &[u32]) -> Vec<(usize, usize)> {
    let mut co: HashMap<u32, (usize, usize)> = HashMap::new();
    for (i, x) in os.iter().enumerate() {
        let e = co.entry(*x).or_insert((0, i));
        e.0 += 1;
    }
    let mut cn: HashMap<u32, (usize, usize)> = HashMap::new();
    for (j, x) in ns.iter().enumerate() {
        let e = cn.entry(*x).or_insert((0, j));
        e.0 += 1;
    }
    let mut v = vec![];
    for (x, (c, i)) in &co {
        if *c == 1 {
            if let Some((1, j)) = cn.get(x) {
                v.push((*i, *j));
            }
        }
    }
    v.sort();
    v
}

fn check_case(c: &SeqCase, obs: &mut Obs) -> Verdict {
    let mut c = c.clone();
    c.alg = 1;
    c.k = None;
    let os = c.old_slice().to_vec();
    let ns = c.new_slice().to_vec();
    let u = unique_common(&os, &ns);
    let lis = lis_len(&u.iter().map(|p| p.1).collect::<Vec<_>>());
    // matched pairs of the raw stream and of the captured ops (relative positions)
    let ev = match raw_events(&c, None) {
        Ok(e) => e,
        Err(p) => return Verdict::Fail(format!("patience raw diff: {}", p)),
    };
    let ops = match capture(&c, None) {
        Ok(o) => o,
        Err(p) => return Verdict::Fail(format!("patience capture: {}", p)),
    };
    // the counts below only mean something for a valid script (C01 / C02 oracles)
    {
        let (old, new) = (&c.old, &c.new);
        if let Err(m) = validate_raw(&ev, c.old_r(), c.new_r(), &|i, j| old[i] == new[j]) {
            let short: String = format!("{:?}", ev).chars().take(400).collect();
            return Verdict::Fail(format!("patience raw stream is not a valid script: {} (stream {})", m, short));
        }
        if let Err(m) = super::c02::judge_ops(&ops, &old[..], c.old_r(), &new[..], c.new_r()) {
            return Verdict::Fail(format!("patience capture is not a valid script: {}", m));
        }
    }
    // the same diff over items whose lawful Hash sees only two bits: anchoring must not change
    {
        let oc: Vec<items::Coarse> = c.old.iter().map(|x| items::Coarse(*x)).collect();
        let nc: Vec<items::Coarse> = c.new.iter().map(|x| items::Coarse(*x)).collect();
        let alg = alg_of(c.alg);
        match guard(|| similar::capture_diff(alg, &oc[..], c.old_r(), &nc[..], c.new_r())) {
            Ok(o) => {
                let mut c0 = c.clone();
                c0.mode = 0;
                match capture(&c0, None) {
                    Ok(b) if b == o => {}
                    Ok(b) => return Verdict::Fail(format!("patience over coarse-hash items gives {:?}, over u32 items {:?}", o, b)),
                    Err(p) => return Verdict::Fail(format!("patience capture: {}", p)),
                }
            }
            Err(p) => return Verdict::Fail(format!("patience over coarse-hash items: {}", p)),
        }
    }
    // different element types on the two sides, hashing differently for equal values
    {
        let oa: Vec<u64> = c.old.iter().map(|x| *x as u64).collect();
        let na: Vec<items::Id32> = c.new.iter().map(|x| items::Id32(*x)).collect();
        let alg = alg_of(c.alg);
        let mut c0 = c.clone();
        c0.mode = 0;
        match (guard(|| similar::capture_diff(alg, &oa[..], c.old_r(), &na[..], c.new_r())), capture(&c0, None)) {
            (Ok(o), Ok(b)) if o == b => {}
            (Ok(o), Ok(b)) => return Verdict::Fail(format!("patience with old items u64 / new items Id32 (PartialEq<u64>, unrelated Hash) gives {:?}, with u32 items {:?}", o, b)),
            (Err(p), _) | (_, Err(p)) => return Verdict::Fail(format!("patience over asymmetric item types: {}", p)),
        }
    }
    let mut pairs_raw = vec![];
    for e in &ev {
        if let Ev::Equal(o, n, l) = *e {
            for t in 0..l {
                pairs_raw.push((o + t - c.or.0, n + t - c.nr.0));
            }
        }
    }
    let mut pairs_cap = vec![];
    for op in &ops {
        if let DiffOp::Equal { old_index, new_index, len } = *op {
            for t in 0..len {
                pairs_cap.push((old_index + t - c.or.0, new_index + t - c.nr.0));
            }
        }
    }
    // the same items as the lines of a text diff (TextDiff with Algorithm::Patience; above 100 lines
    // this goes through the integer mapping)
    let mut pairs_text = vec![];
    let text_diffed = c.is_full() && c.old.len() + c.new.len() <= 3000;
    if text_diffed {
        let os_: Vec<String> = c.old.iter().map(|x| format!("line {}\n", x)).collect();
        let ns_: Vec<String> = c.new.iter().map(|x| format!("line {}\n", x)).collect();
        let (to, tn): (String, String) = (os_.concat(), ns_.concat());
        match guard(|| similar::TextDiff::configure().algorithm(similar::Algorithm::Patience).diff_lines(&to, &tn).ops().to_vec()) {
            Ok(tops) => {
                for op in &tops {
                    if let DiffOp::Equal { old_index, new_index, len } = *op {
                        for t in 0..len {
                            pairs_text.push((old_index + t, new_index + t));
                        }
                    }
                }
            }
            Err(p) => return Verdict::Fail(format!("patience text diff: {}", p)),
        }
    }
    let mut sources = vec![("raw callback stream", &pairs_raw), ("captured ops", &pairs_cap)];
    if text_diffed {
        sources.push(("TextDiff (Patience) over the items as lines", &pairs_text));
    }
    for (what, pairs) in sources {
        let set: std::collections::HashSet<(usize, usize)> = pairs.iter().cloned().collect();
        let mut covered = 0;
        for (i, j) in &u {
            if set.contains(&(*i, *j)) {
                covered += 1;
            } else if pairs.iter().any(|p| p.0 == *i || p.1 == *j) {
                return Verdict::Fail(format!(
                    "{}: the unique item old[{}]=new[{}]={} is reported equal to a different position (pairs {:?})",
                    what, i + c.or.0, j + c.nr.0, os[*i], pairs
                ));
            }
        }
        if covered < lis {
            return Verdict::Fail(format!(
                "{}: {} of the {} unique common items are reported Equal, but {} of them appear in the same relative order on both sides (unique pairs {:?}, equal pairs {:?})",
                what, covered, u.len(), lis, u, pairs
            ));
        }
        if covered > lis {
            panic!("oracle sanity: covered {} > lis {} for {:?}", covered, lis, c);
        }
    }
    // old and new are ONE buffer diffed over two different index ranges (windows of a sequence)
    if c.mode % 3 == 0 && !c.old.is_empty() {
        let buf = &c.old;
        let clamp = |x: usize| x.min(buf.len());
        let nr2 = (clamp(c.nr.0).min(clamp(c.nr.1)), clamp(c.nr.1));
        let (os2, ns2) = (&buf[c.or.0..c.or.1], &buf[nr2.0..nr2.1]);
        let u2 = unique_common(os2, ns2);
        let lis2 = lis_len(&u2.iter().map(|p| p.1).collect::<Vec<_>>());
        let ev2 = guard(|| {
            let mut r = Recorder::new();
            similar::algorithms::patience::diff(&mut r, &buf[..], c.old_r(), &buf[..], nr2.0..nr2.1).unwrap();
            r.events
        });
        let ev2 = match ev2 {
            Ok(e) => e,
            Err(p) => return Verdict::Fail(format!("patience over two windows of one buffer: {}", p)),
        };
        if let Err(m) = validate_raw(&ev2, c.old_r(), nr2.0..nr2.1, &|i, j| buf[i] == buf[j]) {
            return Verdict::Fail(format!("patience over two windows {:?} and {:?} of ONE buffer {:?}: the stream {:?} is not a valid script: {}", c.or, nr2, buf, ev2, m));
        }
        let mut set = std::collections::HashSet::new();
        for e in &ev2 {
            if let Ev::Equal(o, n, l) = *e {
                for t in 0..l {
                    set.insert((o + t - c.or.0, n + t - nr2.0));
                }
            }
        }
        let covered2 = u2.iter().filter(|p| set.contains(p)).count();
        if covered2 < lis2 {
            return Verdict::Fail(format!(
                "patience over two windows {:?} and {:?} of ONE buffer {:?}: {} of the {} unique common items are reported Equal, but {} of them appear in the same relative order (stream {:?})",
                c.or, nr2, buf, covered2, u2.len(), lis2, ev2
            ));
        }
        obs.class_if(c.or != nr2, "old and new are two windows of one buffer");
    }
    let repeats = os.len() + ns.len() > 2 * u.len();
    obs.nontrivial = lis > 0 && lis < u.len() && repeats;
    obs.class_if(lis == u.len() && lis > 0, "all unique common items in order");
    obs.class_if(lis > 0 && lis < u.len(), "crossing unique items (0 < lis < |U|)");
    obs.class_if(u.is_empty(), "no unique common item");
    obs.class_if(!c.is_full(), "sub-range");
    obs.class_if(repeats, "repeated items present");
    Verdict::Pass
}

/// permutations of many distinct items with repeated filler items interleaved, diffed on a sub-range
fn anchors_and_repeats(tier: Tier) -> BoxedStrategy<SeqCase> {
    (perm_pair(20, tier.pick(120, 300)), proptest::collection::vec((any::<u16>(), 0u32..3), 0..=60), raw_ranges(true), 0u8..3)
        .prop_map(|((mut a, mut b), fill, rr, mode)| {
            for (i, (at, v)) in fill.iter().enumerate() {
                // repeated filler values live far away from the distinct ones
                let x = 9_000_000 + *v;
                if i % 2 == 0 {
                    let p = pos(*at, a.len());
                    a.insert(p, x);
                } else {
                    let p = pos(*at, b.len());
                    b.insert(p, x);
                }
            }
            let (or, nr) = ranges_from(rr, a.len(), b.len());
            SeqCase { alg: 1, old: a, new: b, or, nr, mode, k: None }
        })
        .boxed()
}

fn strat(tier: Tier) -> BoxedStrategy<SeqCase> {
    prop_oneof![
        1 => anchors_and_repeats(tier),
        8 => seq_case(tier.pick(80, 300), true, 3),
        1 => (perm_pair(20, tier.pick(150, 400)), 0u8..3).prop_map(|((a, b), mode)| {
            let mut c = SeqCase::full(1, a, b);
            c.mode = mode;
            c
        }),
    ]
    .boxed()
}

/// fixed large cases: hundreds of unique common items that cross, outnumbered by repeated filler
fn enum_large(_tier: Tier, f: &mut dyn FnMut(SeqCase) -> bool) {
    let mut cases = vec![];
    for n in [300u32, 520, 1100] {
        // old = uniques then filler; new = filler, then the even uniques, then the odd ones
        let mut a: Vec<u32> = (1..=n).collect();
        a.extend(std::iter::repeat(0).take(n as usize + 10));
        let mut b: Vec<u32> = std::iter::repeat(0).take(n as usize + 10).collect();
        b.extend((1..=n).filter(|x| x % 2 == 0));
        b.extend((1..=n).filter(|x| x % 2 == 1));
        cases.push(SeqCase::full(1, a, b));
        // uniques interleaved with filler; new = old with the first and the last third exchanged
        let old: Vec<u32> = (0..3 * n).map(|i| if i % 3 == 0 { 1000 + i } else { i % 2 }).collect();
        let k = old.len() / 3;
        let mut new = old[2 * k..].to_vec();
        new.extend_from_slice(&old[k..2 * k]);
        new.extend_from_slice(&old[..k]);
        cases.push(SeqCase::full(1, old, new));
    }
    // a rotation of distinct items: every item is a unique common item, the longest in-order set is
    // the larger part; the two unique lists are hundreds of edits apart
    for n in [700u32, 1500] {
        let old: Vec<u32> = (0..n).collect();
        let k = (n * 3 / 7) as usize;
        let mut new = old[k..].to_vec();
        new.extend_from_slice(&old[..k]);
        cases.push(SeqCase::full(1, old, new));
    }
    // more than 2^16 distinct items on each side: a unique common item that is first seen
    // late (behind 65 536 others) and is crossed by repeats, and one that is first seen early
    for n in [66_000u32] {
        let body: Vec<u32> = (10..10 + n).collect();
        let mut old = body.clone();
        old.extend([9, 1, 1]);
        let mut new = body.clone();
        new.extend([1, 1, 9]);
        cases.push(SeqCase::full(1, old, new));
        let mut old = vec![9, 1, 1];
        old.extend(&body);
        old.extend([7, 2, 2]);
        let mut new = vec![1, 1, 9];
        new.extend(&body);
        new.extend([2, 7, 2]);
        cases.push(SeqCase::full(1, old, new));
    }
    // a long stretch (2300 items) without any unique item and without a new value, the unique items
    // only behind it, crossing
    {
        let filler: Vec<u32> = (0..2300u32).map(|i| i % 2).collect();
        let mut old = filler.clone();
        old.extend([9, 7, 7, 8]);
        let mut new = filler.clone();
        new.extend([7, 7, 9, 8]);
        cases.push(SeqCase::full(1, old, new));
        let mut old = filler.clone();
        old.extend(100..140u32);
        let mut new = filler;
        new.extend((100..140u32).filter(|x| x % 2 == 0));
        new.extend((100..140u32).filter(|x| x % 2 == 1));
        cases.push(SeqCase::full(1, old, new));
    }
    // few unique items on one side in front of a long periodic tail (600 items): every pair of heads of
    // up to 3 items over {12, 13, 14} - a head item may be unique in old and repeated in new
    {
        let heads = all_seqs(3, 3);
        let tail: Vec<u32> = (0..600u32).map(|i| i % 2).collect();
        for a in &heads {
            for b in &heads {
                let mut old: Vec<u32> = a.iter().map(|x| x + 12).collect();
                old.extend(&tail);
                let mut new: Vec<u32> = b.iter().map(|x| x + 12).collect();
                new.extend(&tail);
                cases.push(SeqCase::full(1, old, new));
            }
        }
    }
    // a costly prefix (p blocks of 10 kept + 1 replaced item: hundreds of search rounds over the unique
    // lists), then a short run S and a long run L that change places around a large old-only block M:
    // keeping L (and giving up S) is the longest in-order choice
    for (p, sl, ml, ll) in [(150u32, 25u32, 800u32, 100u32), (100, 20, 600, 60), (150, 40, 800, 100), (120, 25, 600, 100)] {
        let mut old: Vec<u32> = vec![];
        let mut new: Vec<u32> = vec![];
        let mut next = 10u32;
        for _ in 0..p {
            for _ in 0..10 {
                old.push(next);
                new.push(next);
                next += 1;
            }
            old.push(next);
            new.push(next + 1);
            next += 2;
        }
        let s_run: Vec<u32> = (next..next + sl).collect();
        next += sl;
        let m_run: Vec<u32> = (next..next + ml).collect();
        next += ml;
        let l_run: Vec<u32> = (next..next + ll).collect();
        old.extend(&s_run);
        old.extend(&m_run);
        old.extend(&l_run);
        new.extend(&l_run);
        new.extend(&s_run);
        cases.push(SeqCase::full(1, old, new));
    }
    for mut c in cases {
        c.mode = 0;
        if !f(c) {
            return;
        }
    }
}

fn enum_small(tier: Tier, f: &mut dyn FnMut(SeqCase) -> bool) {
    let seqs = all_seqs(4, tier.pick(4, 5));
    for a in &seqs {
        for b in &seqs {
            if !f(SeqCase::full(1, a.clone(), b.clone())) {
                return;
            }
        }
    }
}

impl Prop for C15 {
    type Case = SeqCase;
    const ID: &'static str = "C15";
    fn rule() -> String {
        "cases = (old, new, ranges, capture entry point) diffed with Patience, no deadline, raw, captured and (full-range cases) as the lines of a TextDiff with Algorithm::Patience; enumeration of all pairs over a 4-letter alphabet plus proptest mixture (unique markers at independent positions on both sides, would-be anchors duplicated on one side, permutations, repeats, block moves, sub-ranges; permutations of 20-120/300 distinct items with up to 60 repeated filler items interleaved, on sub-ranges). Oracle: the raw stream and the captured ops are valid scripts (C01 / C02 oracles, judged first); U = items occurring exactly once in each range; lis = longest subsequence of U in the same relative order on both sides (patience sorting); the number of U items reported Equal with their unique counterpart must be >= lis, and a U item must never be matched to another position. For a third of the cases the same oracle is also applied to patience::diff over TWO WINDOWS OF ONE BUFFER (old and new are the same object, different ranges). Non-trivial = 0 < lis < |U| and repeated items present; distinct = distinct serialized case.".into()
    }
    fn assumptions() -> Vec<String> {
        vec!["covered > lis is impossible for a valid script and treated as a harness bug (exit 2)".into()]
    }
    fn stages(tier: Tier) -> Vec<Stage<SeqCase>> {
        vec![
            Stage {
                name: "enum-small",
                kind: StageKind::Enumerate {
                    scope: format!("all (old,new) over {{0,1,2,3}} with lengths <= {}, Patience, full ranges", tier.pick(4, 5)),
                    exhaustive: true,
                    gen: enum_small,
                },
            },
            Stage {
                name: "large",
                kind: StageKind::Enumerate {
                    scope: "1616 fixed cases: 4 with a costly prefix (100-150 blocks of 10 kept + 1 replaced item) followed by a short and a long run that change places around a large old-only block; 2 with the unique items only behind 2300 items without any (crossing); all 1600 pairs of heads of up to 3 items over 3 values in front of a 600-item periodic tail; 300 / 520 / 1100 unique common items that cross (evens before odds; exchanged thirds), outnumbered by repeated filler; rotations of 700 and 1500 distinct items; 66 000 distinct common items with a unique item crossed by repeats behind (and in front of) them".into(),
                    exhaustive: true,
                    gen: enum_large,
                },
            },
            Stage { name: "random", kind: StageKind::Random { strategy: strat, cases: tier.pick(1_000_000, 5_000_000) } },
        ]
    }
    fn check(case: &SeqCase, obs: &mut Obs) -> Verdict {
        check_case(case, obs)
    }
}
