//! C18 — get_close_matches equals exhaustive ranking by similarity ratio.

use crate::core::*;
use crate::oracle::*;
use proptest::collection::vec;
use proptest::prelude::*;
use serde::{Deserialize, Serialize};
use similar::get_close_matches;

pub struct C18;

#[derive(Clone, Debug, Serialize, Deserialize)]
pub struct Case {
    pub word: String,
    pub cands: Vec<String>,
    pub n: usize,
    pub cutoff: f32,
    pub bytes: bool,
}

pub fn ref_ratio(a: &str, b: &str) -> f32 {
    let x: Vec<char> = a.chars().collect();
    let y: Vec<char> = b.chars().collect();
    if x.len() + y.len() == 0 {
        return 1.0;
    }
    2.0 * lcs_len(&x, &y) as f32 / (x.len() + y.len()) as f32
}

fn check_case(c: &Case, obs: &mut Obs) -> Verdict {
    let cands: Vec<&str> = c.cands.iter().map(|s| s.as_str()).collect();
    let got: Vec<String> = if c.bytes {
        let cb: Vec<&[u8]> = cands.iter().map(|s| s.as_bytes()).collect();
        match guard(|| get_close_matches(c.word.as_bytes(), &cb, c.n, c.cutoff)) {
            Ok(v) => v.into_iter().map(|b| String::from_utf8_lossy(b).into_owned()).collect(),
            Err(p) => return Verdict::Fail(format!("get_close_matches([u8]): {}", p)),
        }
    } else {
        match guard(|| get_close_matches(c.word.as_str(), &cands, c.n, c.cutoff)) {
            Ok(v) => v.into_iter().map(|s| s.to_string()).collect(),
            Err(p) => return Verdict::Fail(format!("get_close_matches: {}", p)),
        }
    };
    let mut ranked: Vec<(f32, &str)> = cands.iter().map(|s| (ref_ratio(&c.word, s), *s)).filter(|(r, _)| *r >= c.cutoff).collect();
    ranked.sort_by(|a, b| b.0.partial_cmp(&a.0).unwrap().then(a.1.as_bytes().cmp(b.1.as_bytes())));
    let total = ranked.len();
    let want: Vec<String> = ranked.iter().take(c.n).map(|(_, s)| s.to_string()).collect();
    if got != want {
        return Verdict::Fail(format!(
            "get_close_matches({:?}, {:?}, n={}, cutoff={}) = {:?}, exhaustive ranking gives {:?} (ratios {:?})",
            c.word, c.cands, c.n, c.cutoff, got, want,
            cands.iter().map(|s| ref_ratio(&c.word, s)).collect::<Vec<_>>()
        ));
    }
    let exact = cands.iter().any(|s| ref_ratio(&c.word, s) == c.cutoff);
    let ties = ranked.windows(2).any(|w| w[0].0 == w[1].0 && w[0].1 != w[1].1);
    obs.nontrivial = !want.is_empty() && want.len() < c.cands.len();
    obs.class_if(exact, "cutoff hit exactly by a candidate");
    obs.class_if(ties, "equal ratios among kept candidates");
    obs.class_if(total > c.n, "more matches than n");
    obs.class_if(c.bytes, "[u8]");
    obs.class_if(c.n > 1 << 40, "huge n (all matches)");
    obs.class_if(c.word.chars().count() >= 100, "word of 100+ symbols");
    obs.class_if(c.cands.iter().any(|s| s.is_empty()) || c.word.is_empty(), "empty string involved");
    obs.class_if(!c.word.is_ascii() || c.cands.iter().any(|s| !s.is_ascii()), "multi-byte");
    Verdict::Pass
}

const SYMS: [&str; 7] = ["a", "b", "c", "p", "l", "\u{f6}", "e\u{301}"];

fn word(max: usize) -> impl Strategy<Value = Vec<usize>> {
    vec(prop_oneof![4 => 0usize..4, 1 => 0usize..SYMS.len()], 0..=max)
}

fn render(w: &[usize]) -> String {
    w.iter().map(|i| SYMS[*i]).collect()
}

/// long words (100-300 symbols): ratios that differ only far behind the decimal point
fn long_strat() -> BoxedStrategy<Case> {
    (vec(0usize..3, 100..=300), vec(vec((0u8..3, any::<u16>(), 0usize..4), 1..=6), 2..=8), prop_oneof![Just(1usize), Just(2), Just(3), Just(usize::MAX)], 0usize..8, any::<bool>())
        .prop_map(|(w, cand_edits, n, pick, bytes)| {
            let cands: Vec<String> = cand_edits
                .into_iter()
                .map(|es| {
                    let mut v = w.clone();
                    for (k, at, sym) in es {
                        let len = v.len();
                        match k {
                            0 if len > 0 => {
                                v.remove(crate::gen::pos(at, len - 1));
                            }
                            1 => v.insert(crate::gen::pos(at, len), sym),
                            _ if len > 0 => {
                                let p = crate::gen::pos(at, len - 1);
                                v[p] = sym;
                            }
                            _ => {}
                        }
                    }
                    render(&v)
                })
                .collect();
            let word = render(&w);
            let cutoff = if pick == 7 { 0.6 } else { ref_ratio(&word, &cands[pick % cands.len()]) };
            Case { word, cands, n, cutoff, bytes }
        })
        .boxed()
}

fn strat(_tier: Tier) -> BoxedStrategy<Case> {
    prop_oneof![60 => short_strat(), 1 => long_strat()].boxed()
}

fn short_strat() -> BoxedStrategy<Case> {
    // candidates: independent words or one/two edits away from the word, duplicates allowed
    let cand = prop_oneof![
        2 => word(8).prop_map(|w| (w, vec![])),
        3 => vec((0u8..3, any::<u16>(), 0usize..SYMS.len()), 1..=2).prop_map(|es| (vec![], es)),
        1 => Just((vec![], vec![])),
    ];
    (word(8), vec(cand, 0..=9), prop_oneof![20 => 0usize..6, 1 => Just(usize::MAX), 1 => Just(1usize << 60)], prop_oneof![
        2 => prop_oneof![Just(-1i32), Just(-2), Just(-3), Just(-4)],
        4 => (0i32..9),
        2 => (100i32..201),
    ], any::<bool>(), any::<bool>())
        .prop_map(|(w, cs, n, cut, bytes, dup)| {
            let mut cands: Vec<String> = cs
                .into_iter()
                .map(|(ind, es)| {
                    if es.is_empty() && !ind.is_empty() {
                        render(&ind)
                    } else {
                        let mut v = w.clone();
                        for (k, at, sym) in es {
                            let len = v.len();
                            match k {
                                0 if len > 0 => {
                                    v.remove(crate::gen::pos(at, len - 1));
                                }
                                1 => v.insert(crate::gen::pos(at, len), sym),
                                _ if len > 0 => {
                                    let p = crate::gen::pos(at, len - 1);
                                    v[p] = sym;
                                }
                                _ => {}
                            }
                        }
                        render(&v)
                    }
                })
                .collect();
            if dup && !cands.is_empty() {
                let x = cands[0].clone();
                cands.push(x);
            }
            let word = render(&w);
            let cutoff = match cut {
                -1 => 0.0,
                -2 => 0.5,
                -3 => 0.6,
                -4 => 1.0,
                i if i < 100 => {
                    // the exact ratio of a candidate, so that ">= cutoff" is hit exactly
                    if cands.is_empty() { 0.6 } else { ref_ratio(&word, &cands[i as usize % cands.len()]) }
                }
                h => (h - 100) as f32 / 100.0,
            };
            Case { word, cands, n, cutoff, bytes }
        })
        .boxed()
}

impl Prop for C18 {
    type Case = Case;
    const ID: &'static str = "C18";
    fn rule() -> String {
        "cases = (word, 0-10 candidates, n in 0..6 | usize::MAX | 2^60, cutoff, str | [u8]); 1 case in ~60 uses words of 100-300 symbols with candidates 1-6 edits away (ratios that differ by less than 1e-4); words over a 7-symbol alphabet incl. multi-byte and a combining sequence; candidates independent or 1-2 edits away from the word, duplicates and empty strings included; cutoff in {0, 0.5, 0.6, 1.0} | the exact ratio of one candidate (so '>= cutoff' is hit exactly) | hundredths. Oracle: brute force — ratio = 2*LCS(chars)/(n+m) by an independent DP (1.0 for two empty strings), keep ratio >= cutoff, sort by ratio descending then candidate ascending (bytewise), take n, compare as value lists. Non-trivial = result non-empty and shorter than the candidate list; distinct = distinct serialized case.".into()
    }
    fn assumptions() -> Vec<String> {
        vec!["ratios are computed in f32 with the same expression as the documented formula; for words up to a few hundred symbols distinct f32 ratios stay distinct under the library's scaling to u32 (exact power-of-two scaling for ratios >= 2^-8)".into()]
    }
    fn stages(tier: Tier) -> Vec<Stage<Case>> {
        vec![Stage { name: "random", kind: StageKind::Random { strategy: strat, cases: tier.pick(1_000_000, 6_000_000) } }]
    }
    fn check(case: &Case, obs: &mut Obs) -> Verdict {
        check_case(case, obs)
    }
}
