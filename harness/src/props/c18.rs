//! C18 — get_close_matches equals exhaustive ranking by similarity ratio.

use crate::core::*;
use crate::gen::BStr;
use crate::oracle::*;
use proptest::collection::vec;
use proptest::prelude::*;
use serde::{Deserialize, Serialize};
use similar::get_close_matches;

pub struct C18;

#[derive(Clone, Debug, Serialize, Deserialize)]
pub struct Case {
    pub word: BStr,
    pub cands: Vec<BStr>,
    pub n: usize,
    pub cutoff: f32,
    /// call get_close_matches on [u8] (always when a string is not valid UTF-8)
    pub bytes: bool,
}

/// the characters of a byte string: scalar values, and for invalid UTF-8 one unit per maximal
/// invalid subpart (std's decoding policy, written without the library or bstr)
pub fn byte_chars(mut b: &[u8]) -> Vec<&[u8]> {
    let mut out = vec![];
    while !b.is_empty() {
        match std::str::from_utf8(b) {
            Ok(s) => {
                for (o, ch) in s.char_indices() {
                    out.push(&b[o..o + ch.len_utf8()]);
                }
                break;
            }
            Err(e) => {
                let v = e.valid_up_to();
                for (o, ch) in std::str::from_utf8(&b[..v]).unwrap().char_indices() {
                    out.push(&b[o..o + ch.len_utf8()]);
                }
                let bad = e.error_len().unwrap_or(b.len() - v);
                out.push(&b[v..v + bad]);
                b = &b[v + bad..];
            }
        }
    }
    out
}

pub fn ref_ratio(a: &[u8], b: &[u8]) -> f32 {
    let x = byte_chars(a);
    let y = byte_chars(b);
    if x.len() + y.len() == 0 {
        return 1.0;
    }
    2.0 * lcs_len(&x, &y) as f32 / (x.len() + y.len()) as f32
}

fn check_case(c: &Case, obs: &mut Obs) -> Verdict {
    let cands: Vec<&[u8]> = c.cands.iter().map(|s| &s.0[..]).collect();
    let all_valid = c.word.as_str().is_some() && c.cands.iter().all(|s| s.as_str().is_some());
    let use_bytes = c.bytes || !all_valid;
    let got: Vec<BStr> = if use_bytes {
        match guard(|| get_close_matches(&c.word.0[..], &cands, c.n, c.cutoff)) {
            Ok(v) => v.into_iter().map(|b| BStr(b.to_vec())).collect(),
            Err(p) => return Verdict::Fail(format!("get_close_matches([u8]): {}", p)),
        }
    } else {
        let cs: Vec<&str> = c.cands.iter().map(|s| s.as_str().unwrap()).collect();
        match guard(|| get_close_matches(c.word.as_str().unwrap(), &cs, c.n, c.cutoff)) {
            Ok(v) => v.into_iter().map(|s| BStr(s.as_bytes().to_vec())).collect(),
            Err(p) => return Verdict::Fail(format!("get_close_matches: {}", p)),
        }
    };
    let mut ranked: Vec<(f32, &[u8])> = cands.iter().map(|s| (ref_ratio(&c.word.0, s), *s)).filter(|(r, _)| *r >= c.cutoff).collect();
    ranked.sort_by(|a, b| b.0.partial_cmp(&a.0).unwrap().then(a.1.cmp(b.1)));
    let total = ranked.len();
    let want: Vec<BStr> = ranked.iter().take(c.n).map(|(_, s)| BStr(s.to_vec())).collect();
    if got != want {
        return Verdict::Fail(format!(
            "get_close_matches({:?}, {:?}, n={}, cutoff={}) = {:?}, exhaustive ranking gives {:?} (ratios {:?})",
            c.word, c.cands, c.n, c.cutoff, got, want,
            cands.iter().map(|s| ref_ratio(&c.word.0, s)).collect::<Vec<_>>()
        ));
    }
    if all_valid {
        // (a) the word and some candidates are windows of ONE buffer (the word is a prefix of a
        // candidate, candidates are prefixes / tails of the word's buffer)
        let buf: String = format!("{}{}", c.word.as_str().unwrap(), c.cands.first().and_then(|s| s.as_str()).unwrap_or(""));
        let wl = c.word.0.len();
        let mut cuts: Vec<usize> = vec![buf.len(), wl, wl / 2, 0];
        cuts.retain(|k| buf.is_char_boundary(*k));
        let mut al: Vec<&str> = cuts.iter().map(|k| &buf[..*k]).collect();
        if buf.is_char_boundary(wl / 2) {
            al.push(&buf[wl / 2..]);
        }
        let extra: Vec<&str> = c.cands.iter().skip(1).map(|s| s.as_str().unwrap()).collect();
        al.extend(extra);
        let word = &buf[..wl];
        match guard(|| get_close_matches(word, &al, c.n, c.cutoff)) {
            Ok(got) => {
                let mut ranked: Vec<(f32, &str)> = al.iter().map(|s| (ref_ratio(word.as_bytes(), s.as_bytes()), *s)).filter(|(r, _)| *r >= c.cutoff).collect();
                ranked.sort_by(|a, b| b.0.partial_cmp(&a.0).unwrap().then(a.1.as_bytes().cmp(b.1.as_bytes())));
                let want: Vec<&str> = ranked.iter().take(c.n).map(|(_, s)| *s).collect();
                if got != want {
                    return Verdict::Fail(format!("get_close_matches with the word {:?} and the candidates {:?} being windows of one buffer (n={}, cutoff={}) = {:?}, exhaustive ranking gives {:?}", word, al, c.n, c.cutoff, got, want));
                }
            }
            Err(p) => return Verdict::Fail(format!("get_close_matches over windows of one buffer: {}", p)),
        }
        // (b) a caller-defined case-insensitive text type: candidates spelled in upper case
        if c.word.0.is_ascii() && c.cands.iter().all(|s| s.0.is_ascii()) {
            use crate::oracle::cistr::CiStr;
            let ups: Vec<String> = c.cands.iter().map(|s| s.as_str().unwrap().to_ascii_uppercase()).collect();
            let ci: Vec<&CiStr> = ups.iter().map(|s| CiStr::new(s)).collect();
            let w = c.word.as_str().unwrap().to_ascii_lowercase();
            match guard(|| get_close_matches(CiStr::new(&w), &ci, c.n, c.cutoff)) {
                Ok(got) => {
                    let got: Vec<String> = got.iter().map(|s| s.as_plain().to_ascii_lowercase()).collect();
                    let mut ranked: Vec<(f32, String)> = ups.iter().map(|s| s.to_ascii_lowercase()).map(|s| (ref_ratio(w.as_bytes(), s.as_bytes()), s)).filter(|(r, _)| *r >= c.cutoff).collect();
                    ranked.sort_by(|a, b| b.0.partial_cmp(&a.0).unwrap().then(a.1.as_bytes().cmp(b.1.as_bytes())));
                    let want: Vec<String> = ranked.into_iter().take(c.n).map(|(_, s)| s).collect();
                    if got != want {
                        return Verdict::Fail(format!("get_close_matches over a caller-defined case-insensitive text type: word {:?}, candidates {:?} (n={}, cutoff={}) = {:?} (case folded), exhaustive ranking gives {:?}", w, ups, c.n, c.cutoff, got, want));
                    }
                }
                Err(p) => return Verdict::Fail(format!("get_close_matches over a caller-defined text type: {}", p)),
            }
        }
    }
    let exact = cands.iter().any(|s| ref_ratio(&c.word.0, s) == c.cutoff);
    let ties = ranked.windows(2).any(|w| w[0].0 == w[1].0 && w[0].1 != w[1].1);
    obs.nontrivial = !want.is_empty() && want.len() < c.cands.len();
    obs.class_if(exact, "cutoff hit exactly by a candidate");
    obs.class_if(ties, "equal ratios among kept candidates");
    obs.class_if(total > c.n, "more matches than n");
    obs.class_if(use_bytes, "[u8]");
    obs.class_if(!all_valid, "invalid UTF-8 involved");
    obs.class_if(c.n > 1 << 40, "huge n (all matches)");
    obs.class_if(byte_chars(&c.word.0).len() >= 100, "word of 100+ symbols");
    obs.class_if(c.cands.iter().any(|s| s.0.is_empty()) || c.word.0.is_empty(), "empty string involved");
    obs.class_if(!c.word.0.is_ascii() || c.cands.iter().any(|s| !s.0.is_ascii()), "multi-byte");
    Verdict::Pass
}

/// symbols 0..7 are valid UTF-8; 7.. are bytes / byte pairs that are not (latin-1 e-acute, 0xFF,
/// a lone continuation byte, a truncated 4-byte sequence) and only occur in byte-string cases
const SYMS: [&[u8]; 15] = [
    b"a", b"b", b"c", b"p", b"l", "\u{f6}".as_bytes(), "e\u{301}".as_bytes(), "\u{65e5}".as_bytes(), "\u{1F600}".as_bytes(),
    b"\xe9", b"\xff", b"\x80", b"\xf0\x9f", b"\xed\xa0\x80", b"\xc0\xaf",
];
const VALID_SYMS: usize = 9;

fn word(max: usize) -> impl Strategy<Value = Vec<usize>> {
    vec(prop_oneof![8 => 0usize..4, 2 => 0usize..VALID_SYMS, 1 => 0usize..SYMS.len()], 0..=max)
}

/// `invalid` = false maps the non-UTF-8 symbols onto valid ones
fn render(w: &[usize], invalid: bool) -> BStr {
    BStr(w.iter().flat_map(|i| SYMS[if invalid || *i < VALID_SYMS { *i } else { *i - VALID_SYMS }].iter().copied()).collect())
}

/// long words (100-300 symbols): ratios that differ only far behind the decimal point; a few rare
/// symbols that occur once on both sides and move
fn long_strat() -> BoxedStrategy<Case> {
    (prop_oneof![2 => vec(prop_oneof![24 => 0usize..3, 1 => 3usize..VALID_SYMS], 100..=300), 1 => vec((0usize..4, prop_oneof![3 => 1usize..12, 2 => 60usize..140]), 2..=6).prop_map(|runs| runs.into_iter().flat_map(|(s, l)| std::iter::repeat(s).take(l)).take(330).collect::<Vec<usize>>())], vec(vec((0u8..5, any::<u16>(), 0usize..4), 1..=6), 2..=8), prop_oneof![Just(1usize), Just(2), Just(3), Just(usize::MAX)], 0usize..8, any::<bool>())
        .prop_map(|(w, cand_edits, n, pick, bytes)| {
            let cands: Vec<BStr> = cand_edits
                .into_iter()
                .map(|es| {
                    let mut v = w.clone();
                    for (k, at, sym) in es {
                        let len = v.len();
                        match k {
                            0 if len > 0 => {
                                v.remove(crate::gen::pos(at, len - 1));
                            }
                            1 => v.insert(crate::gen::pos(at, len), sym),
                            // the candidate becomes a short string (0-3 symbols) that may share a symbol with the word
                            4 => {
                                v = (0..(at as usize % 4)).map(|i| (sym + i * (1 + at as usize % 3)) % 4).collect();
                            }
                            // a symbol (often one that is rare in the word) moves to the front or the back
                            3 if len > 0 => {
                                let p = v.iter().position(|x| *x >= 3).filter(|_| at % 4 != 0).unwrap_or(crate::gen::pos(at, len - 1));
                                let x = v.remove(p);
                                if sym % 2 == 0 {
                                    v.insert(0, x);
                                } else {
                                    v.push(x);
                                }
                            }
                            _ if len > 0 => {
                                let p = crate::gen::pos(at, len - 1);
                                v[p] = sym;
                            }
                            _ => {}
                        }
                    }
                    render(&v, false)
                })
                .collect();
            let word = render(&w, false);
            let cutoff = if pick == 7 { 0.6 } else { ref_ratio(&word.0, &cands[pick % cands.len()].0) };
            Case { word, cands, n, cutoff, bytes }
        })
        .boxed()
}

/// many candidates (33-120) over a two-letter alphabet: large groups of equal ratios, n cutting
/// through a group
fn many_strat() -> BoxedStrategy<Case> {
    (vec(0usize..2, 0..=6), vec(vec(0usize..3, 0..=6), 33..=120), prop_oneof![4 => 1usize..8, 1 => Just(40usize), 1 => Just(usize::MAX)], prop_oneof![Just(0.0f32), Just(0.3), Just(0.5), Just(0.6)], any::<bool>())
        .prop_map(|(w, cs, n, cutoff, bytes)| {
            let cands: Vec<BStr> = cs.iter().map(|c| render(c, false)).collect();
            Case { word: render(&w, false), cands, n, cutoff, bytes }
        })
        .boxed()
}

/// words of 11-99 symbols with candidates at every distance (a few edits, many edits, unrelated,
/// much shorter or longer) and mid-range cutoffs: the pre-filters work near the cutoff
fn mid_strat() -> BoxedStrategy<Case> {
    (vec(0usize..4, 11..=99), vec((vec((0u8..3, any::<u16>(), 0usize..4), 0..=30), proptest::option::of(vec(0usize..4, 0..=120))), 1..=8), prop_oneof![Just(1usize), Just(3), Just(usize::MAX)], prop_oneof![3 => (30i32..96), 1 => Just(-1)], 0usize..8, any::<bool>())
        .prop_map(|(w, cs, n, cut, pick, bytes)| {
            let cands: Vec<BStr> = cs
                .into_iter()
                .map(|(es, unrelated)| {
                    if let Some(u) = unrelated {
                        return render(&u, false);
                    }
                    let mut v = w.clone();
                    for (k, at, sym) in es {
                        let len = v.len();
                        match k {
                            0 if len > 0 => {
                                v.remove(crate::gen::pos(at, len - 1));
                            }
                            1 => v.insert(crate::gen::pos(at, len), sym),
                            _ if len > 0 => {
                                let p = crate::gen::pos(at, len - 1);
                                v[p] = sym;
                            }
                            _ => {}
                        }
                    }
                    render(&v, false)
                })
                .collect();
            let word = render(&w, false);
            let cutoff = if cut < 0 { ref_ratio(&word.0, &cands[pick % cands.len()].0) } else { cut as f32 / 100.0 };
            Case { word, cands, n, cutoff, bytes }
        })
        .boxed()
}

fn strat(_tier: Tier) -> BoxedStrategy<Case> {
    prop_oneof![120 => short_strat(), 2 => long_strat(), 1 => many_strat(), 6 => mid_strat()].boxed()
}

fn short_strat() -> BoxedStrategy<Case> {
    // candidates: independent words or one/two edits away from the word, duplicates allowed
    let cand = prop_oneof![
        2 => word(8).prop_map(|w| (w, vec![])),
        3 => vec((0u8..3, any::<u16>(), 0usize..SYMS.len()), 1..=2).prop_map(|es| (vec![], es)),
        1 => Just((vec![], vec![])),
    ];
    (word(8), vec(cand, 0..=9), prop_oneof![20 => 0usize..6, 1 => Just(usize::MAX), 1 => Just(1usize << 60)], prop_oneof![
        4 => prop_oneof![Just(-1i32), Just(-2), Just(-3), Just(-4)],
        1 => prop_oneof![Just(-5i32), Just(-6), Just(-7)],
        8 => (0i32..9),
        4 => (100i32..201),
    ], any::<bool>(), any::<bool>(), any::<bool>())
        .prop_map(|(w, cs, n, cut, bytes, dup, inv)| {
            let invalid = bytes && inv;
            let mut cands: Vec<BStr> = cs
                .into_iter()
                .map(|(ind, es)| {
                    if es.is_empty() && !ind.is_empty() {
                        render(&ind, invalid)
                    } else {
                        let mut v = w.clone();
                        for (k, at, sym) in es {
                            let len = v.len();
                            match k {
                                0 if len > 0 => {
                                    v.remove(crate::gen::pos(at, len - 1));
                                }
                                1 => v.insert(crate::gen::pos(at, len), sym),
                                _ if len > 0 => {
                                    let p = crate::gen::pos(at, len - 1);
                                    v[p] = sym;
                                }
                                _ => {}
                            }
                        }
                        render(&v, invalid)
                    }
                })
                .collect();
            if dup && !cands.is_empty() {
                let x = cands[0].clone();
                cands.push(x);
            }
            let word = render(&w, invalid);
            let cutoff = match cut {
                -1 => 0.0,
                -2 => 0.5,
                -3 => 0.6,
                -4 => 1.0,
                // tiny positive cutoffs: a candidate sharing nothing with the word (ratio 0) stays out
                -5 => 1e-10,
                -6 => f32::MIN_POSITIVE,
                -7 => 1e-6,
                i if i < 100 => {
                    // the exact ratio of a candidate, so that ">= cutoff" is hit exactly
                    if cands.is_empty() { 0.6 } else { ref_ratio(&word.0, &cands[i as usize % cands.len()].0) }
                }
                h => (h - 100) as f32 / 100.0,
            };
            Case { word, cands, n, cutoff, bytes }
        })
        .boxed()
}

impl Prop for C18 {
    type Case = Case;
    const ID: &'static str = "C18";
    fn rule() -> String {
        "cases = (word, 0-10 candidates, n in 0..6 | usize::MAX | 2^60, cutoff, str | [u8]); 1 case in ~120 has 33-120 candidates over a two/three-letter alphabet (large groups of equal ratios, n cutting through a group); 1 case in ~60 uses words of 100-300 symbols (a third of them built from 2-6 runs of one symbol, runs of 60-140) with candidates 1-6 edits away (ratios that differ by less than 1e-4), moved rare symbols, or short strings; words over a 9-symbol alphabet incl. 2-, 3- and 4-byte characters and a combining sequence, for [u8] additionally 6 non-UTF-8 symbols (latin-1 byte, 0xFF, lone continuation byte, truncated 4-byte sequence, an encoded surrogate, an overlong form; about 1 case in 20 has a word of 11-99 symbols with candidates at every distance and mid-range cutoffs; a character of a byte string = one scalar value or one maximal invalid subpart); candidates independent or 1-2 edits away from the word, duplicates and empty strings included; cutoff in {0, 0.5, 0.6, 1.0} | tiny positive values (1e-10, f32::MIN_POSITIVE, 1e-6) | the exact ratio of one candidate (so '>= cutoff' is hit exactly) | hundredths. Valid-UTF-8 cases are also run with the word and candidates being WINDOWS OF ONE BUFFER, and ASCII cases over a caller-defined case-insensitive DiffableStr (candidates in upper case). Oracle: brute force — ratio = 2*LCS(chars)/(n+m) by an independent DP (1.0 for two empty strings), keep ratio >= cutoff, sort by ratio descending then candidate ascending (bytewise), take n, compare as value lists. Non-trivial = result non-empty and shorter than the candidate list; distinct = distinct serialized case.".into()
    }
    fn assumptions() -> Vec<String> {
        vec!["ratios are computed in f32 with the same expression as the documented formula; for words up to a few hundred symbols distinct f32 ratios stay distinct under the library's scaling to u32 (exact power-of-two scaling for ratios >= 2^-8)".into()]
    }
    fn stages(tier: Tier) -> Vec<Stage<Case>> {
        let mut v = vec![];
        if tier == Tier::Thorough {
            // one call that keeps the library busy for about a second: 9000 unrelated 300-symbol
            // candidates followed by three near copies of the word (a per-call time budget instead of
            // a per-comparison one would drop the late ones)
            v.push(Stage {
                name: "heavy-call",
                kind: StageKind::Enumerate {
                    scope: "1 fixed call: a 300-symbol word over 4 letters, 9000 unrelated 300-symbol candidates, then 3 candidates 4-6 edits away; n = 5, cutoff 0.9".into(),
                    exhaustive: true,
                    gen: |_t, f| {
                        let sym = |x: u32| [b'a', b'c', b'g', b't'][x as usize];
                        let word: Vec<u8> = lcg_seq(900, 300, 4).into_iter().map(sym).collect();
                        let mut cands: Vec<BStr> = (0..9000u64).map(|i| BStr(lcg_seq(1000 + i, 300, 4).into_iter().map(sym).collect())).collect();
                        for k in 0..3usize {
                            let mut w = word.clone();
                            for e in 0..4 + k {
                                let p = (e * 53 + k * 17) % w.len();
                                w[p] = if w[p] == b'a' { b'c' } else { b'a' };
                            }
                            cands.push(BStr(w));
                        }
                        f(Case { word: BStr(word), cands, n: 5, cutoff: 0.9, bytes: false });
                    },
                },
            });
        }
        // long words with hundreds of scattered substitutions (edit distances of 400-1300 in ONE
        // comparison): the ratio is still 2*LCS/len, the ranking exact
        v.push(Stage {
            name: "long-words",
            kind: StageKind::Enumerate {
                scope: "3 fixed calls: a word of 1200 / 2000 / 2600 characters over 5 letters, candidates = the word with every 6th, every 4th and every 3rd character replaced plus an unrelated string; n = 3, cutoff 0.5".into(),
                exhaustive: true,
                gen: |_t, f| {
                    for n in [1200usize, 2000, 2600] {
                        let sym = |x: u32| [b'a', b'c', b'g', b't', b'u'][x as usize];
                        let word: Vec<u8> = lcg_seq(700 + n as u64, n, 5).into_iter().map(sym).collect();
                        let mut cands = vec![];
                        for step in [6usize, 4, 3] {
                            let mut w = word.clone();
                            for i in (0..w.len()).step_by(step) {
                                w[i] = b'z';
                            }
                            cands.push(BStr(w));
                        }
                        cands.push(BStr(lcg_seq(90 + n as u64, n, 5).into_iter().map(|x| [b'k', b'l', b'm', b'n', b'o'][x as usize]).collect()));
                        if !f(Case { word: BStr(word), cands, n: 3, cutoff: 0.5, bytes: n == 2000 }) {
                            return;
                        }
                    }
                },
            },
        });
        v.push(Stage { name: "random", kind: StageKind::Random { strategy: strat, cases: tier.pick(1_000_000, 6_000_000) } });
        v
    }
    fn check(case: &Case, obs: &mut Obs) -> Verdict {
        check_case(case, obs)
    }
}
