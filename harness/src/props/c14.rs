//! C14 — a text diff is the sequence diff of its tokens at every size and config.

use super::common::*;
use crate::core::*;
use crate::gen::*;
use crate::oracle::*;
use crate::oracle::items;
use proptest::collection::vec;
use proptest::prelude::*;
use serde::{Deserialize, Serialize};
use similar::algorithms::IdentifyDistinct;
use similar::{capture_diff_slices, DiffableStr, TextDiff};
use std::ops::Add;

pub struct C14;

#[derive(Clone, Debug, Serialize, Deserialize)]
pub enum Case {
    Text {
        case: TextCase,
        /// newline_terminated override: 0 unset, 1 true, 2 false
        nt: u8,
    },
    /// IdentifyDistinct over a sequence pair; `seq.mode` selects the integer type
    Ident { seq: SeqCase },
}

fn judge_text<'a, T: DiffableStr + ?Sized + 'a>(c: &TextCase, nt: u8, old: &'a T, new: &'a T, obs: &mut Obs) -> Result<(), String> {
    let mut cfg = config(c.alg);
    match nt % 3 {
        1 => {
            cfg.newline_terminated(true);
        }
        2 => {
            cfg.newline_terminated(false);
        }
        _ => {}
    }
    let tokenize = |s: &'a T| -> Vec<&'a T> {
        match c.tok % 5 {
            0 => s.tokenize_lines(),
            1 => s.tokenize_words(),
            2 => s.tokenize_chars(),
            3 => s.tokenize_unicode_words(),
            _ => s.tokenize_graphemes(),
        }
    };
    let (to, tn) = (tokenize(old), tokenize(new));
    let d: TextDiff<'a, 'a, '_, T> = match c.tok % 5 {
        0 => cfg.diff_lines(old, new),
        1 => cfg.diff_words(old, new),
        2 => cfg.diff_chars(old, new),
        3 => cfg.diff_unicode_words(old, new),
        _ => cfg.diff_graphemes(old, new),
    };
    if d.old_slices() != &to[..] || d.new_slices() != &tn[..] {
        return Err("the diff's token slices are not the tokenizer's output".into());
    }
    let alg = alg_of(c.alg);
    let want = capture_diff_slices(alg, &to, &tn);
    if d.ops() != &want[..] {
        return Err(format!(
            "{} tokens vs {} tokens: TextDiff::ops {:?} != capture_diff_slices over the token slices {:?}",
            to.len(), tn.len(), d.ops(), want
        ));
    }
    if d.algorithm() != alg {
        return Err(format!("TextDiff::algorithm() = {:?}, configured {:?}", d.algorithm(), alg));
    }
    let want_nt = match nt % 3 {
        1 => true,
        2 => false,
        _ => c.tok % 5 == 0,
    };
    if d.newline_terminated() != want_nt {
        return Err(format!("newline_terminated() = {}, expected {} (tokenizer {}, override {})", d.newline_terminated(), want_nt, TOKENIZERS[(c.tok % 5) as usize], nt % 3));
    }
    // the generic slice entry point
    let d2 = cfg.diff_slices(&to, &tn);
    if d2.ops() != &want[..] {
        return Err(format!("TextDiffConfig::diff_slices ops {:?} != capture_diff_slices {:?}", d2.ops(), want));
    }
    let want_nt2 = match nt % 3 {
        1 => true,
        _ => false,
    };
    if d2.newline_terminated() != want_nt2 || d2.algorithm() != alg {
        return Err("diff_slices: newline_terminated()/algorithm() wrong".into());
    }
    // the one-call constructors are the default configuration (Myers, no override)
    if c.alg % 3 == 0 {
        let d3: TextDiff<'a, 'a, '_, T> = match c.tok % 5 {
            0 => TextDiff::from_lines(old, new),
            1 => TextDiff::from_words(old, new),
            2 => TextDiff::from_chars(old, new),
            3 => TextDiff::from_unicode_words(old, new),
            _ => TextDiff::from_graphemes(old, new),
        };
        if d3.ops() != &want[..] || d3.algorithm() != alg || d3.newline_terminated() != (c.tok % 5 == 0) {
            return Err(format!("TextDiff::from_{}: ops {:?} / algorithm {:?} / newline_terminated {} differ from the default configuration ({:?})", TOKENIZERS[(c.tok % 5) as usize], d3.ops(), d3.algorithm(), d3.newline_terminated(), want));
        }
        let d4 = TextDiff::from_slices(&to, &tn);
        if d4.ops() != &want[..] || d4.algorithm() != alg || d4.newline_terminated() {
            return Err(format!("TextDiff::from_slices: ops {:?} differ from capture_diff_slices {:?}", d4.ops(), want));
        }
    }
    // both paths under a deadline that has already passed (every probe reports expiry, however many
    // there are): the approximation of the text diff is the approximation of the sequence diff
    if (to.len() + 2 * tn.len()) % 5 == 0 {
        if let Some(past) = std::time::Instant::now().checked_sub(std::time::Duration::from_secs(5)) {
            cfg.deadline(past);
            let dd: TextDiff<'a, 'a, '_, T> = match c.tok % 5 {
                0 => cfg.diff_lines(old, new),
                1 => cfg.diff_words(old, new),
                2 => cfg.diff_chars(old, new),
                3 => cfg.diff_unicode_words(old, new),
                _ => cfg.diff_graphemes(old, new),
            };
            let want_d = similar::capture_diff_slices_deadline(alg, &to, &tn, Some(past));
            if dd.ops() != &want_d[..] {
                return Err(format!(
                    "{} tokens vs {} tokens, deadline already passed: TextDiff::ops {:?} != capture_diff_slices_deadline over the token slices {:?}",
                    to.len(), tn.len(), dd.ops(), want_d
                ));
            }
            obs.class("also diffed under a deadline that has passed (both paths)");
        }
    }
    let big = to.len() > 100 || tn.len() > 100;
    obs.nontrivial = big && to != tn;
    obs.class_if(to.len() <= 100 && tn.len() <= 100, "both sides <= 100 tokens");
    obs.class_if(to.len() > 100 && tn.len() <= 100, "only old > 100 tokens");
    obs.class_if(to.len() <= 100 && tn.len() > 100, "only new > 100 tokens");
    obs.class_if(to.len() > 100 && tn.len() > 100, "both sides > 100 tokens");
    obs.class_if(to.len() == 100 || tn.len() == 100, "a side has exactly 100 tokens");
    obs.class_if(to.len() == 101 || tn.len() == 101, "a side has exactly 101 tokens");
    Ok(())
}

fn ident_check<Int>(c: &SeqCase) -> Result<(), String>
where
    Int: Add<Output = Int> + From<u8> + Default + Copy + PartialEq + std::fmt::Debug,
{
    let h = IdentifyDistinct::<Int>::new(&c.old[..], c.old_r(), &c.new[..], c.new_r());
    if h.old_range() != c.old_r() || h.new_range() != c.new_r() {
        return Err(format!("old_range()/new_range() = {:?}/{:?}, caller passed {:?}/{:?}", h.old_range(), h.new_range(), c.old_r(), c.new_r()));
    }
    let ol = h.old_lookup();
    let nl = h.new_lookup();
    // ids indexed with the caller's indices; equal ids <=> equal items, within and across sides
    let mut all: Vec<(u32, Int)> = vec![];
    for i in c.old_r() {
        all.push((c.old[i], ol[i]));
    }
    for j in c.new_r() {
        all.push((c.new[j], nl[j]));
    }
    for a in 0..all.len() {
        for b in a + 1..all.len() {
            if (all[a].0 == all[b].0) != (all[a].1 == all[b].1) {
                return Err(format!(
                    "items {} and {} get ids {:?} and {:?} (items equal: {}, ids equal: {})",
                    all[a].0, all[b].0, all[a].1, all[b].1, all[a].0 == all[b].0, all[a].1 == all[b].1
                ));
            }
        }
    }
    Ok(())
}

/// IdentifyDistinct over items with a lawful but coarse Hash: ids must still follow equality
fn ident_check_coarse(c: &SeqCase) -> Result<(), String> {
    let oc: Vec<items::Coarse> = c.old.iter().map(|x| items::Coarse(*x)).collect();
    let nc: Vec<items::Coarse> = c.new.iter().map(|x| items::Coarse(*x)).collect();
    let h = IdentifyDistinct::<u32>::new(&oc[..], c.old_r(), &nc[..], c.new_r());
    let (ol, nl) = (h.old_lookup(), h.new_lookup());
    let mut all: Vec<(u32, u32)> = vec![];
    for i in c.old_r() {
        all.push((c.old[i], ol[i]));
    }
    for j in c.new_r() {
        all.push((c.new[j], nl[j]));
    }
    for a in 0..all.len() {
        for b in a + 1..all.len() {
            if (all[a].0 == all[b].0) != (all[a].1 == all[b].1) {
                return Err(format!("coarse-hash items {} and {} get ids {} and {}", all[a].0, all[b].0, all[a].1, all[b].1));
            }
        }
    }
    Ok(())
}

/// the owning / borrowing wrappers accepted by the text entry points (String, Cow, Vec<u8>) give the
/// diff of the text they hold
fn wrapper_inputs(c: &TextCase) -> Result<(), String> {
    use std::borrow::Cow;
    let cfg = config(c.alg);
    let tok = c.tok % 5;
    if let (Some(o), Some(n)) = (c.old.as_str(), c.new.as_str()) {
        let want = diff_str(&cfg, tok, o, n).ops().to_vec();
        let (so, sn) = (o.to_string(), n.to_string());
        let (co, cn): (Cow<str>, Cow<str>) = (Cow::Borrowed(o), Cow::Owned(n.to_string()));
        let got_s = match tok {
            0 => cfg.diff_lines(&so, &sn).ops().to_vec(),
            1 => cfg.diff_words(&so, &sn).ops().to_vec(),
            2 => cfg.diff_chars(&so, &sn).ops().to_vec(),
            3 => cfg.diff_unicode_words(&so, &sn).ops().to_vec(),
            _ => cfg.diff_graphemes(&so, &sn).ops().to_vec(),
        };
        let got_c = match tok {
            0 => cfg.diff_lines(&co, &cn).ops().to_vec(),
            1 => cfg.diff_words(&co, &cn).ops().to_vec(),
            2 => cfg.diff_chars(&co, &cn).ops().to_vec(),
            3 => cfg.diff_unicode_words(&co, &cn).ops().to_vec(),
            _ => cfg.diff_graphemes(&co, &cn).ops().to_vec(),
        };
        if got_s != want || got_c != want {
            return Err(format!("diffing String / Cow<str> inputs gives {:?} / {:?}, the &str inputs give {:?}", got_s, got_c, want));
        }
    }
    let want = diff_bytes(&cfg, tok, &c.old.0, &c.new.0).ops().to_vec();
    let (vo, vn) = (c.old.0.clone(), c.new.0.clone());
    let (co, cn): (Cow<[u8]>, Cow<[u8]>) = (Cow::Owned(c.old.0.clone()), Cow::Borrowed(&c.new.0[..]));
    let got_v = match tok {
        0 => cfg.diff_lines(&vo, &vn).ops().to_vec(),
        1 => cfg.diff_words(&vo, &vn).ops().to_vec(),
        2 => cfg.diff_chars(&vo, &vn).ops().to_vec(),
        3 => cfg.diff_unicode_words(&vo, &vn).ops().to_vec(),
        _ => cfg.diff_graphemes(&vo, &vn).ops().to_vec(),
    };
    let got_c = match tok {
        0 => cfg.diff_lines(&co, &cn).ops().to_vec(),
        1 => cfg.diff_words(&co, &cn).ops().to_vec(),
        2 => cfg.diff_chars(&co, &cn).ops().to_vec(),
        3 => cfg.diff_unicode_words(&co, &cn).ops().to_vec(),
        _ => cfg.diff_graphemes(&co, &cn).ops().to_vec(),
    };
    if got_v != want || got_c != want {
        return Err(format!("diffing Vec<u8> / Cow<[u8]> inputs gives {:?} / {:?}, the &[u8] inputs give {:?}", got_v, got_c, want));
    }
    Ok(())
}

/// a caller-defined DiffableStr (ASCII-case-insensitive text): the text diff must still be the
/// sequence diff of its tokens on both sides of the size switch.  The new text is re-spelled in the
/// other case, so equal tokens differ bytewise.
fn caller_defined_type(c: &TextCase) -> Result<(), String> {
    use crate::oracle::cistr::CiStr;
    let (o, n) = match (c.old.as_str(), c.new.as_str()) {
        (Some(o), Some(n)) => (o, n),
        _ => return Ok(()),
    };
    let n_up = n.to_ascii_uppercase();
    let (co, cn) = (CiStr::new(o), CiStr::new(&n_up));
    let cfg = config(c.alg);
    let tok = c.tok % 5;
    let (to, tn) = match tok {
        0 => (co.tokenize_lines(), cn.tokenize_lines()),
        1 => (co.tokenize_words(), cn.tokenize_words()),
        2 => (co.tokenize_chars(), cn.tokenize_chars()),
        3 => (co.tokenize_unicode_words(), cn.tokenize_unicode_words()),
        _ => (co.tokenize_graphemes(), cn.tokenize_graphemes()),
    };
    let d = match tok {
        0 => cfg.diff_lines(co, cn),
        1 => cfg.diff_words(co, cn),
        2 => cfg.diff_chars(co, cn),
        3 => cfg.diff_unicode_words(co, cn),
        _ => cfg.diff_graphemes(co, cn),
    };
    let want = capture_diff_slices(alg_of(c.alg), &to, &tn);
    if d.ops() != &want[..] {
        return Err(format!("case-insensitive caller-defined text type, {} vs {} tokens: TextDiff::ops {:?} != capture_diff_slices over its tokens {:?}", to.len(), tn.len(), d.ops(), want));
    }
    // and the same equality pattern spelled identically on both sides gives the same ops
    let n_lo = n.to_ascii_lowercase();
    let o_lo = o.to_ascii_lowercase();
    let d2 = match tok {
        0 => cfg.diff_lines(CiStr::new(&o_lo), CiStr::new(&n_lo)).ops().to_vec(),
        1 => cfg.diff_words(CiStr::new(&o_lo), CiStr::new(&n_lo)).ops().to_vec(),
        2 => cfg.diff_chars(CiStr::new(&o_lo), CiStr::new(&n_lo)).ops().to_vec(),
        3 => cfg.diff_unicode_words(CiStr::new(&o_lo), CiStr::new(&n_lo)).ops().to_vec(),
        _ => cfg.diff_graphemes(CiStr::new(&o_lo), CiStr::new(&n_lo)).ops().to_vec(),
    };
    if d2 != want {
        return Err(format!("case-insensitive caller-defined text type: re-spelling the tokens within their equality class changes the ops: {:?} vs {:?}", d2, want));
    }
    Ok(())
}

fn check(case: &Case, obs: &mut Obs) -> Verdict {
    match case {
        Case::Text { case: c, nt } => {
            if c.old.0.len() + c.new.0.len() <= 3000 && c.old.0.is_ascii() && c.new.0.is_ascii() {
                match guard(|| caller_defined_type(c)) {
                    Ok(Ok(())) => {}
                    Ok(Err(m)) => return Verdict::Fail(format!("{} {}: {}", alg_name(c.alg), TOKENIZERS[(c.tok % 5) as usize], m)),
                    Err(p) => return Verdict::Fail(format!("text diff over a caller-defined DiffableStr: {}", p)),
                }
            }
            if c.old.0.len() + c.new.0.len() <= 400 {
                match guard(|| wrapper_inputs(c)) {
                    Ok(Ok(())) => {}
                    Ok(Err(m)) => return Verdict::Fail(format!("{} {}: {}", alg_name(c.alg), TOKENIZERS[(c.tok % 5) as usize], m)),
                    Err(p) => return Verdict::Fail(format!("text diff over String/Cow/Vec inputs: {}", p)),
                }
            }
            obs.class(TOKENIZERS[(c.tok % 5) as usize]);
            obs.class(alg_name(c.alg));
            let r = if c.use_bytes() { guard(|| judge_text(c, *nt, &c.old.0[..], &c.new.0[..], obs)) } else { guard(|| judge_text(c, *nt, c.old.as_str().unwrap(), c.new.as_str().unwrap(), obs)) };
            match r {
                Ok(Ok(())) => Verdict::Pass,
                Ok(Err(m)) => Verdict::Fail(format!("{} {} {}: {}", alg_name(c.alg), TOKENIZERS[(c.tok % 5) as usize], if c.use_bytes() { "[u8]" } else { "str" }, m)),
                Err(p) => Verdict::Fail(format!("text diff: {}", p)),
            }
        }
        Case::Ident { seq: c } => {
            let distinct = {
                let mut s: std::collections::HashSet<u32> = c.old_slice().iter().cloned().collect();
                s.extend(c.new_slice().iter().cloned());
                s.len()
            };
            // u8 ids only when they cannot overflow ("integer types wide enough")
            let ty = if c.mode % 5 == 4 && distinct > 255 { 1 } else { c.mode % 5 };
            match guard(|| ident_check_coarse(c)) {
                Ok(Ok(())) => {}
                Ok(Err(m)) => return Verdict::Fail(format!("IdentifyDistinct: {}", m)),
                Err(p) => return Verdict::Fail(format!("IdentifyDistinct over coarse-hash items: {}", p)),
            }
            if c.is_full() && !c.old.is_empty() {
                let view = crate::oracle::Reversed(c.old.clone());
                let n = view.0.len();
                match guard(|| {
                    let h = IdentifyDistinct::<u32>::new(&view.0, 0..n, &view, 0..n);
                    let (ol, nl) = (h.old_lookup(), h.new_lookup());
                    for i in 0..n {
                        for j in 0..n {
                            if (view.0[i] == view.0[n - 1 - j]) != (ol[i] == nl[j]) {
                                return Err(format!("IdentifyDistinct over a Vec {:?} and a transparent back-to-front view of it (same address): old[{}] and new[{}] get ids {} and {}", view.0, i, j, ol[i], nl[j]));
                            }
                        }
                    }
                    Ok(())
                }) {
                    Ok(Ok(())) => {}
                    Ok(Err(m)) => return Verdict::Fail(m),
                    Err(p) => return Verdict::Fail(format!("IdentifyDistinct over a same-address view: {}", p)),
                }
            }
            let r = guard(|| match ty {
                0 => ident_check::<u16>(c),
                1 => ident_check::<u32>(c),
                2 => ident_check::<u64>(c),
                3 => ident_check::<usize>(c),
                _ => ident_check::<u8>(c),
            });
            // a narrow id type is wide enough whenever the number of DISTINCT items fits, however long
            // the sequences are: the same items behind 300 copies of the first old item, ids in u8
            let r = match r {
                Ok(Ok(())) if !c.old.is_empty() && {
                    // distinct items of the WHOLE sequences (the lengthened ranges reach back to index or.0 / nr.0 of them)
                    let mut all: Vec<u32> = c.old.iter().chain(c.new.iter()).cloned().collect();
                    all.sort();
                    all.dedup();
                    all.len() <= 200
                } => guard(|| {
                    let mut long_old = vec![c.old[0]; 300];
                    long_old.extend_from_slice(&c.old);
                    let mut long_new = vec![c.old[0]; 280];
                    long_new.extend_from_slice(&c.new);
                    let c2 = SeqCase { old: long_old, new: long_new, or: (c.or.0, c.or.1 + 300), nr: (c.nr.0, c.nr.1 + 280), ..c.clone() };
                    ident_check::<u8>(&c2).map_err(|m| format!("ids in u8 for {} distinct items in sequences of {} / {} items: {}", distinct, c2.old.len(), c2.new.len(), m))
                }),
                other => other,
            };
            obs.class("IdentifyDistinct");
            obs.class(["ids: u16", "ids: u32", "ids: u64", "ids: usize", "ids: u8"][ty as usize]);
            obs.class_if(c.or.0 > 0 || c.nr.0 > 0, "non-zero range offset");
            obs.nontrivial = (c.or.0 > 0 || c.nr.0 > 0) && distinct >= 2;
            match r {
                Ok(Ok(())) => Verdict::Pass,
                Ok(Err(m)) => Verdict::Fail(format!("IdentifyDistinct: {}", m)),
                Err(p) => Verdict::Fail(format!("IdentifyDistinct: {}", p)),
            }
        }
    }
}

/// texts with a chosen number of items per side, straddling the 100-token threshold
fn sized_text_case(tier: Tier) -> BoxedStrategy<TextCase> {
    let sizes = || prop_oneof![Just(0usize), Just(1), Just(2), Just(50), Just(51), Just(99), Just(100), Just(101), Just(102), Just(150), Just(tier.pick(200usize, 300))];
    let k = || prop_oneof![Just(2u32), Just(3), Just(8), Just(40), Just(1_000_000u32)];
    (sizes(), sizes(), k(), vec(0u32..1_000_000, 300), vec(0u32..1_000_000, 300), vec((0u8..4, any::<u16>(), 0u32..1_000_000), 0..=6), any::<bool>(), 0u8..5, 0u8..3, any::<bool>(), any::<bool>())
        .prop_map(|(n, m, k, a, b, edits, related, tok, alg, bytes, trailing)| {
            let old: Vec<u32> = a[..n].iter().map(|x| x % k).collect();
            let new: Vec<u32> = if related {
                // new = old resized to m items then edited in place (keeps the size)
                let mut v: Vec<u32> = (0..m).map(|i| if i < old.len() { old[i] } else { b[i] % k }).collect();
                for (kind, at, val) in &edits {
                    if v.is_empty() {
                        break;
                    }
                    let p = pos(*at, v.len() - 1);
                    match kind % 4 {
                        0 => v[p] = val % k,
                        1 => {
                            v.remove(p);
                            v.push(val % k);
                        }
                        2 => {
                            v.insert(p, val % k);
                            v.pop();
                        }
                        _ => v.swap(p, 0),
                    }
                }
                v
            } else {
                b[..m].iter().map(|x| x % k).collect()
            };
            // LCS keeps a BTreeMap table; keep its inputs moderate
            let cap = if alg == 2 { 160 } else { usize::MAX };
            let render = |v: &[u32]| -> Vec<u8> {
                let v = &v[..v.len().min(cap)];
                let mut s = String::new();
                match tok {
                    0 => {
                        for x in v {
                            s.push_str(&format!("l{}\n", x));
                        }
                        if trailing && !s.is_empty() {
                            s.pop();
                        }
                    }
                    1 | 3 => {
                        for (i, x) in v.iter().enumerate() {
                            if i > 0 {
                                s.push(' ');
                            }
                            s.push_str(&format!("w{}", x));
                        }
                        if trailing && !s.is_empty() {
                            s.push(' ');
                        }
                    }
                    _ => {
                        for x in v {
                            s.push(char::from_u32(0x61 + (*x % 26)).unwrap());
                            if *x >= 26 {
                                s.push('\u{301}');
                            }
                        }
                    }
                }
                s.into_bytes()
            };
            TextCase { old: BStr(render(&old)), new: BStr(render(&new)), tok, alg, bytes, opt: 0 }
        })
        .boxed()
}

fn strat(tier: Tier) -> BoxedStrategy<Case> {
    prop_oneof![
        5 => (sized_text_case(tier), 0u8..3).prop_map(|(case, nt)| Case::Text { case, nt }),
        2 => (text_case_mix(130), 0u8..3).prop_map(|(case, nt)| Case::Text { case, nt }),
        1 => (distinct_line_case(tier.pick(300, 600)), 0u8..3).prop_map(|(case, nt)| Case::Text { case, nt }),
        3 => seq_case(tier.pick(80, 400), true, 5).prop_map(|seq| Case::Ident { seq }),
    ]
    .boxed()
}

impl Prop for C14 {
    type Case = Case;
    const ID: &'static str = "C14";
    fn rule() -> String {
        "cases = Text(old, new, tokenizer, algorithm, str | [u8], newline_terminated override in {unset,true,false}) with item counts per side drawn from {0,1,2,50,51,99,100,101,102,150,200/300} (all four <=100 / >100 quadrants, and exactly 100/101 tokens), new related to old by in-place edits or independent, plus the shared text mixture | Ident(sequence pair, non-zero range offsets, integer type in {u16,u32,u64,usize, u8 only when <= 255 distinct items}). Oracle: TextDiff::ops == capture_diff_slices(alg, tokenizer(old), tokenizer(new)); the stored token slices are the tokenizer output; algorithm() == configured; newline_terminated() == override else (tokenizer == lines); TextDiffConfig::diff_slices likewise; for a fifth of the cases the same differential under a deadline that has already passed (capture_diff_slices_deadline); String / Cow<str> / Vec<u8> / Cow<[u8]> inputs give the ops of the borrowed text (texts up to 400 bytes). IdentifyDistinct: ids equal <=> items equal within and across sides (also with u8 ids for up to 200 distinct items in sequences of more than 255 items), old_range()/new_range() == the caller's, lookups indexed with the caller's indices. ASCII texts are also diffed as a caller-defined case-insensitive DiffableStr (new side re-spelled in upper case): ops == sequence diff of its tokens, and == the ops of the identically spelled texts; IdentifyDistinct is also run over a Vec and a transparent back-to-front view of it at the same address. Non-trivial = a side has more than 100 tokens and the texts differ (Text) / non-zero offset with >= 2 distinct items (Ident); distinct = distinct serialized case.".into()
    }
    fn assumptions() -> Vec<String> {
        vec!["LCS inputs capped at 160 items".into()]
    }
    fn stages(tier: Tier) -> Vec<Stage<Case>> {
        vec![
            Stage {
                name: "huge",
                kind: StageKind::Enumerate { scope: "5 fixed line texts: 2 with 70 000 distinct lines (token ids beyond 16 bits), and per algorithm 1100 x 1100 unrelated distinct lines between a common head and tail (LCS table beyond 2^20 cells); LCS over 1200 x 1200 repeated lines / 2400 x 2400 words with 90 scattered edits (tables beyond 2^20 cells)".into(), exhaustive: true, gen: |_t, f| {
                    for c in huge_line_cases() {
                        if !f(Case::Text { case: c, nt: 0 }) {
                            return;
                        }
                    }
                    // LCS on 1200 x 1200 tokens (table of 1.4 M cells): repeated lines, scattered edits
                    for (tok, bytes) in [(0u8, false), (1u8, true)] {
                        let a = lcg_seq(71, 1200, 40);
                        let mut b = a.clone();
                        for (i, x) in lcg_seq(72, 90, 1200).into_iter().enumerate() {
                            let p = (x as usize).min(b.len() - 1);
                            match i % 3 {
                                0 => b[p] = (b[p] + 1) % 40,
                                1 => {
                                    b.remove(p);
                                }
                                _ => b.insert(p, (i % 40) as u32),
                            }
                        }
                        let render = |v: &[u32]| BStr(v.iter().map(|x| if tok == 0 { format!("l{}\n", x) } else { format!("w{} ", x) }).collect::<String>().into_bytes());
                        if !f(Case::Text { case: TextCase { old: render(&a), new: render(&b), tok, alg: 2, bytes, opt: 0 }, nt: 0 }) {
                            return;
                        }
                    }
                } },
            },
            Stage { name: "random", kind: StageKind::Random { strategy: strat, cases: tier.pick(40_000, 250_000) } },
        ]
    }
    fn check(case: &Case, obs: &mut Obs) -> Verdict {
        check(case, obs)
    }
    fn describe(case: &Case) -> serde_json::Value {
        match case {
            Case::Text { case, nt } => {
                let short = |b: &BStr| {
                    let e = b.escaped();
                    if e.len() > 80 { format!("{}… ({} bytes)", &e[..80], b.0.len()) } else { e }
                };
                serde_json::json!({"Text": {"old": short(&case.old), "new": short(&case.new), "tok": TOKENIZERS[(case.tok % 5) as usize], "alg": alg_name(case.alg), "bytes": case.bytes, "newline_terminated_override": nt}})
            }
            c => serde_json::to_value(c).unwrap(),
        }
    }
}
