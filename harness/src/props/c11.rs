//! C11 — every captured op carries exact positions in both sequences.
//! Known finding D7 (compaction swap keeps stale carried indices) is attributed through the
//! cfg(similar_verif) swap-repair switch: a carried-index violation that disappears with the
//! repair on is the known finding; anything else is reported.

use super::common::*;
use crate::core::*;
use crate::gen::*;
use crate::oracle::*;
use proptest::prelude::*;
use serde::{Deserialize, Serialize};
use similar::udiff::UnifiedHunkHeader;
use similar::{DiffOp, DiffableStr, TextDiff};

pub struct C11;

pub const D7: &str = "D7-compact-swap-carried-index";

#[derive(Clone, Debug, Serialize, Deserialize)]
pub enum Case {
    Seq(SeqCase),
    Lines(TextCase),
}

fn tuple_consistent(ops: &[DiffOp]) -> Result<(), String> {
    for op in ops {
        let (tag, o, n) = op.as_tag_tuple();
        // expected from the op's own fields (an empty range starts at the carried index)
        let want = match *op {
            DiffOp::Equal { old_index, new_index, len } => (similar::DiffTag::Equal, old_index..old_index + len, new_index..new_index + len),
            DiffOp::Delete { old_index, old_len, new_index } => (similar::DiffTag::Delete, old_index..old_index + old_len, new_index..new_index),
            DiffOp::Insert { old_index, new_index, new_len } => (similar::DiffTag::Insert, old_index..old_index, new_index..new_index + new_len),
            DiffOp::Replace { old_index, old_len, new_index, new_len } => (similar::DiffTag::Replace, old_index..old_index + old_len, new_index..new_index + new_len),
        };
        if (tag, o.clone(), n.clone()) != want || op.tag() != want.0 || op.old_range() != want.1 || op.new_range() != want.2 {
            return Err(format!("{:?}: as_tag_tuple()/tag()/old_range()/new_range() = {:?}, the fields say {:?}", op, (tag, o, n), want));
        }
    }
    Ok(())
}

fn check_seq(c: &SeqCase, obs: &mut Obs) -> Verdict {
    // an aborted diff earlier on this thread (hook error inside Compact's replay) must not leak into
    // this capture
    if (c.old.len() + c.new.len()) % 4 == 1 {
        let _ = guard(|| poison_thread(alg_of(c.alg), &c.new, &c.old, c.old.len() % 3));
        obs.class("after an aborted diff on the same thread");
    }
    let ops = match capture(c, None) {
        Ok(o) => o,
        Err(p) => return Verdict::Fail(format!("capture: {}", p)),
    };
    let swaps = similar::verif::swap::swaps();
    if let Err(m) = tuple_consistent(&ops) {
        return Verdict::Fail(m);
    }
    obs.nontrivial = ops.iter().any(|o| matches!(o, DiffOp::Delete { .. } | DiffOp::Insert { .. }));
    obs.class(alg_name(c.alg));
    obs.class_if(!c.is_full(), "sub-range");
    obs.class_if(swaps > 0, "compaction swap reached");
    obs.class_if(ops.iter().any(|o| matches!(o, DiffOp::Replace { .. })), "has Replace");
    match judge_capture(c, None, &ops, obs) {
        Verdict::Pass => {}
        v => return v,
    }
    // consumers that group the list (the unified-diff header takes its extents from the first and last
    // op of a group): grouping keeps true coordinates too - every Equal op of a group is a piece of an
    // Equal op of the list, on the same diagonal, and every other op is an op of the list
    for n in [1usize, 3] {
        let groups = match guard(|| similar::group_diff_ops(ops.clone(), n)) {
            Ok(g) => g,
            Err(p) => return Verdict::Fail(format!("group_diff_ops: {}", p)),
        };
        for g in &groups {
            for op in g {
                let ok = match *op {
                    DiffOp::Equal { old_index, new_index, len } => ops.iter().any(|o| match *o {
                        DiffOp::Equal { old_index: oo, new_index: nn, len: ll } => oo <= old_index && old_index + len <= oo + ll && nn <= new_index && old_index - oo == new_index - nn,
                        _ => false,
                    }),
                    _ => ops.contains(op),
                };
                if !ok {
                    return Verdict::Fail(format!("{} mode {}: group_diff_ops(ops, {}) holds {:?}, which is neither an op of the list nor a piece of one of its Equal ops (list {:?}, windows {:?} / {:?})", alg_name(c.alg), c.mode, n, op, ops, c.old_r(), c.new_r()));
                }
            }
        }
    }
    // the same for captures made under a deadline that runs out (before the start / at a later probe):
    // what the deadline fallbacks report goes through the same clean-up and carries exact positions too
    for k in [0u64, 1 + ((c.old.len() + c.new.len()) % 3) as u64] {
        let ops_k = match capture(c, Some(k)) {
            Ok(o) => o,
            Err(p) => return Verdict::Fail(format!("capture with expiry at probe {}: {}", k, p)),
        };
        if ops_k != ops {
            obs.class("capture under an expiring deadline differs from the exact one");
        }
        match judge_capture(c, Some(k), &ops_k, obs) {
            Verdict::Pass => {}
            v => return v,
        }
    }
    Verdict::Pass
}

fn judge_capture(c: &SeqCase, k: Option<u64>, ops: &[DiffOp], obs: &mut Obs) -> Verdict {
    let how = match k {
        None => String::new(),
        Some(k) => format!(" (deadline running out at probe {})", k),
    };
    match carried_exact(ops, c.or.0, c.nr.0) {
        Ok(()) => Verdict::Pass,
        Err((true, m)) => Verdict::Fail(format!("{} mode {}{}: ops {:?}: {}", alg_name(c.alg), c.mode, how, ops, m)),
        Err((false, m)) => {
            // carried-index mismatch: is it the swap site?
            similar::verif::swap::set_repair(true);
            let ops2 = capture(c, k);
            similar::verif::swap::set_repair(false);
            match ops2 {
                Ok(ops2) => match carried_exact(&ops2, c.or.0, c.nr.0) {
                    Ok(()) => {
                        obs.class("known finding D7 hit");
                        Verdict::Known(D7)
                    }
                    Err((_, m2)) => Verdict::Fail(format!(
                        "{} mode {}{}: ops {:?}: {} — persists with the swap repair on ({})",
                        alg_name(c.alg), c.mode, how, ops, m, m2
                    )),
                },
                Err(p) => Verdict::Fail(format!("capture with swap repair: {}", p)),
            }
        }
    }
}

fn fmt_range(start: usize, end: usize) -> String {
    let len = end.saturating_sub(start);
    if len == 1 {
        format!("{}", start + 1)
    } else if len == 0 {
        format!("{},0", start)
    } else {
        format!("{},{}", start + 1, len)
    }
}

/// expected hunk headers computed from the true extents (walk over the primary indices)
fn header_mismatch<T: DiffableStr + ?Sized>(diff: &TextDiff<T>, radius: usize) -> Option<String> {
    let ops = diff.ops();
    // true cursor before every non-Equal op
    let mut truth = vec![];
    let (mut co, mut cn) = (0usize, 0usize);
    for op in ops {
        let (_, o, n) = op.as_tag_tuple();
        if !matches!(op, DiffOp::Equal { .. }) {
            truth.push((co, cn, co + o.len(), cn + n.len()));
        }
        co += o.len();
        cn += n.len();
    }
    let mut j = 0;
    for group in diff.grouped_ops(radius) {
        if group.is_empty() {
            continue;
        }
        let mut first = None;
        let mut last = (0, 0);
        for op in &group {
            let (s, e) = match *op {
                DiffOp::Equal { old_index, new_index, len } => ((old_index, new_index), (old_index + len, new_index + len)),
                _ => {
                    let t = truth.get(j).copied()?;
                    j += 1;
                    ((t.0, t.1), (t.2, t.3))
                }
            };
            if first.is_none() {
                first = Some(s);
            }
            last = e;
        }
        let first = first.unwrap();
        let want = format!("@@ -{} +{} @@", fmt_range(first.0, last.0), fmt_range(first.1, last.1));
        let got = UnifiedHunkHeader::new(&group).to_string();
        if want != got {
            return Some(format!("hunk header {:?} but the true extents give {:?} (group {:?})", got, want, group));
        }
    }
    None
}

/// first mismatch of a line diff: the op list itself (exact positions of TextDiff::ops), then the
/// consumer view (hunk headers).  `Some((primary, message))`.
fn text_mismatch<T: DiffableStr + ?Sized>(d: &TextDiff<T>, radius: usize) -> Option<(bool, String)> {
    if let Err(m) = tuple_consistent(d.ops()) {
        return Some((true, m));
    }
    if let Err((primary, m)) = carried_exact(d.ops(), 0, 0) {
        return Some((primary, format!("TextDiff::ops {:?}: {}", d.ops(), m)));
    }
    header_mismatch(d, radius).map(|m| (false, m))
}

fn lines_mismatch(c: &TextCase, radius: usize) -> Result<(Option<(bool, String)>, usize, u64), String> {
    let cfg = config(c.alg);
    guard(|| {
        similar::verif::swap::reset_swaps();
        if c.use_bytes() {
            let d = cfg.diff_lines(&c.old.0[..], &c.new.0[..]);
            (text_mismatch(&d, radius), d.ops().len(), similar::verif::swap::swaps())
        } else {
            let d = cfg.diff_lines(c.old.as_str().unwrap(), c.new.as_str().unwrap());
            (text_mismatch(&d, radius), d.ops().len(), similar::verif::swap::swaps())
        }
    })
}

fn check_lines(c: &TextCase, obs: &mut Obs) -> Verdict {
    let radius = [0usize, 1, 2, 3, 0, 1, 3, 5][(c.opt % 8) as usize];
    obs.class("consumer view: UnifiedHunkHeader over TextDiff::grouped_ops");
    match lines_mismatch(c, radius) {
        Err(p) => Verdict::Fail(format!("line diff: {}", p)),
        Ok((None, nops, swaps)) => {
            obs.nontrivial = nops >= 2;
            obs.class_if(swaps > 0, "compaction swap reached");
            Verdict::Pass
        }
        Ok((Some((true, m)), _, _)) => Verdict::Fail(format!("{} lines: {}", alg_name(c.alg), m)),
        Ok((Some((false, m)), _, _)) => {
            similar::verif::swap::set_repair(true);
            let r = lines_mismatch(c, radius);
            similar::verif::swap::set_repair(false);
            match r {
                Ok((None, _, _)) => {
                    obs.nontrivial = true;
                    obs.class("known finding D7 hit");
                    Verdict::Known(D7)
                }
                Ok((Some((_, m2)), _, _)) => Verdict::Fail(format!("{} radius {}: {} — persists with the swap repair on ({})", alg_name(c.alg), radius, m, m2)),
                Err(p) => Verdict::Fail(format!("line diff with swap repair: {}", p)),
            }
        }
    }
}

fn strat(tier: Tier) -> BoxedStrategy<Case> {
    prop_oneof![
        16 => seq_case(tier.pick(100, 300), true, 3).prop_map(Case::Seq),
        // (weights are out of 21 + 1/10: about 1 case in 200)
        1 => prop_oneof![9 => seq_case(12, true, 3), 1 => big_seq_case(tier)].prop_map(Case::Seq),
        4 => line_case(tier.pick(40, 120), false).prop_map(Case::Lines),
        1 => big_line_case(tier.pick(130, 300)).prop_map(Case::Lines),
    ]
    .boxed()
}

fn enum_small(tier: Tier, f: &mut dyn FnMut(Case) -> bool) {
    let seqs = all_seqs(2, tier.pick(6, 7));
    for a in &seqs {
        for b in &seqs {
            for alg in 0..3u8 {
                if !f(Case::Seq(SeqCase::full(alg, a.clone(), b.clone()))) {
                    return;
                }
            }
        }
    }
}

impl Prop for C11 {
    type Case = Case;
    const ID: &'static str = "C11";
    fn rule() -> String {
        "cases = Seq(algorithm, old, new, ranges, capture entry point): the capture without deadline and the captures made under a (virtual) deadline that runs out at probe 0 and at probe 1..3 | Lines(old, new, algorithm, radius): exact positions of TextDiff::ops and the consumer view (hunk headers); enumeration of all pairs over {0,1} plus proptest mixture biased to repeats next to edits. Oracle: both indices of every op == range start + items consumed before it on that side; group_diff_ops over the captured list (radius 1 and 3, also for sub-range windows) only holds ops of the list and pieces of its Equal ops on the same diagonal; hunk headers computed by the library from first/last op == headers computed from the true extents. A carried-index / header mismatch that disappears when the cfg(similar_verif) swap repair is on is counted as known finding D7 and the search continues; any other mismatch is a violation. Non-trivial = op list contains a pure Delete or Insert (Seq) / at least 2 ops (Lines); distinct = distinct serialized case.".into()
    }
    fn assumptions() -> Vec<String> {
        vec![
            "attribution of D7 uses the swap-repair hook (off by default, so the pinned behaviour is what is judged first)".into(),
            "primary-index mismatches are never attributed to D7".into(),
        ]
    }
    fn stages(tier: Tier) -> Vec<Stage<Case>> {
        vec![
            Stage {
                name: "enum-small",
                kind: StageKind::Enumerate {
                    scope: format!("all (old,new) over {{0,1}} with lengths <= {} x 3 algorithms, full ranges", tier.pick(6, 7)),
                    exhaustive: true,
                    gen: enum_small,
                },
            },
            Stage {
                name: "many-ops",
                kind: StageKind::Enumerate {
                    scope: "near-identical sequences of N / N+1 items for N at and around the powers of two from 64 to 8192 per algorithm (LCS up to 1025); 6 fixed diffs with thousands of ops (7000 items with every third removed, 6000 with an item inserted after every third, 5000 with every fourth replaced; Myers and Patience)".into(),
                    exhaustive: true,
                    gen: |_t, f| {
                        for c in many_ops_cases() {
                            if !f(Case::Seq(c)) {
                                return;
                            }
                        }
                        for c in pow2_seq_cases(1025) {
                            if !f(Case::Seq(c)) {
                                return;
                            }
                        }
                    },
                },
            },
            Stage { name: "random", kind: StageKind::Random { strategy: strat, cases: tier.pick(1_000_000, 6_000_000) } },
        ]
    }
    fn check(case: &Case, obs: &mut Obs) -> Verdict {
        match case {
            Case::Seq(c) => check_seq(c, obs),
            Case::Lines(c) => check_lines(c, obs),
        }
    }
}
