//! C05 — rendered unified diffs are well-formed and apply exactly.
//! Independent reader + strict applier.  Header start/count mismatches that disappear with the
//! swap-repair hook on are the known finding D7; everything else is reported.

use super::c11::D7;
use super::common::*;
use crate::core::*;
use crate::gen::{escape_bytes, BStr};
use crate::oracle::*;
use proptest::prelude::*;
use serde::{Deserialize, Serialize};
use similar::{DiffableStr, TextDiff};

pub struct C05;

#[derive(Clone, Debug, PartialEq, Eq, Hash, Serialize, Deserialize)]
pub struct Case {
    pub old: BStr,
    pub new: BStr,
    pub alg: u8,
    pub bytes: bool,
    pub radius: usize,
    /// 0 none, 1 ("a","b"), 2 names with spaces/tab/non-ASCII
    pub header: u8,
}

const HEADERS: [Option<(&str, &str)>; 3] = [None, Some(("a", "b")), Some(("old file.txt\t2020-01-01 00:00", "n\u{e9}w \u{65e5}\u{672c}"))];
const MARKER: &[u8] = b"\\ No newline at end of file\n";

#[derive(Debug, PartialEq, Clone, Copy)]
pub enum Kind {
    /// hunk header start / count does not match the body or the true position
    Header,
    Other,
}

fn split_lines(b: &[u8]) -> Vec<&[u8]> {
    let mut out = vec![];
    let mut start = 0;
    let mut i = 0;
    while i < b.len() {
        if b[i] == b'\n' {
            out.push(&b[start..=i]);
            start = i + 1;
            i += 1;
        } else if b[i] == b'\r' {
            if b.get(i + 1) == Some(&b'\n') {
                out.push(&b[start..=i + 1]);
                start = i + 2;
                i += 2;
            } else {
                out.push(&b[start..=i]);
                start = i + 1;
                i += 1;
            }
        } else {
            i += 1;
        }
    }
    if start < b.len() {
        out.push(&b[start..]);
    }
    out
}

fn parse_range(s: &str) -> Option<(usize, usize)> {
    let mut it = s.splitn(2, ',');
    let a: usize = it.next()?.parse().ok()?;
    let b: usize = match it.next() {
        Some(x) => x.parse().ok()?,
        None => 1,
    };
    Some((a, b))
}

fn parse_hunk_header(line: &[u8]) -> Option<((usize, usize), (usize, usize))> {
    let s = std::str::from_utf8(line).ok()?;
    let s = s.strip_suffix('\n')?;
    let s = s.strip_prefix("@@ -")?;
    let s = s.strip_suffix(" @@")?;
    let mut it = s.splitn(2, " +");
    let o = parse_range(it.next()?)?;
    let n = parse_range(it.next()?)?;
    Some((o, n))
}

struct BodyLine<'a> {
    tag: u8,
    content: Vec<u8>,
    marker: bool,
    #[allow(dead_code)]
    raw: &'a [u8],
}

/// Reads the writer output and applies it strictly to `old`; returns the number of hunks.
pub fn read_and_apply(out: &[u8], old: &[u8], new: &[u8], radius: usize, header: Option<(&str, &str)>, hint: bool) -> Result<(usize, usize), (Kind, String)> {
    let other = |m: String| (Kind::Other, m);
    if old == new {
        if !out.is_empty() {
            return Err(other(format!("equal inputs render as {:?}, expected the empty string", escape_bytes(out))));
        }
        return Ok((0, 0));
    }
    let mut rest = out;
    if out.is_empty() {
        return Err(other("different inputs render as the empty string".into()));
    }
    if let Some((a, b)) = header {
        let h = format!("--- {}\n+++ {}\n", a, b);
        match rest.strip_prefix(h.as_bytes()) {
            Some(r) => rest = r,
            None => return Err(other(format!("output does not start with the file header {:?}: {:?}", h, escape_bytes(&out[..out.len().min(60)])))),
        }
    }
    let old_lines = split_lines(old);
    let new_lines = split_lines(new);
    let units = split_lines(rest);
    // group into hunks
    let mut hunks: Vec<(((usize, usize), (usize, usize)), Vec<BodyLine>)> = vec![];
    let mut i = 0;
    while i < units.len() {
        let u = units[i];
        match u[0] {
            b'@' => {
                let h = parse_hunk_header(u).ok_or_else(|| other(format!("unparsable hunk header {:?}", escape_bytes(u))))?;
                hunks.push((h, vec![]));
                i += 1;
            }
            b' ' | b'-' | b'+' => {
                let cur = match hunks.last_mut() {
                    Some(h) => h,
                    None => return Err(other(format!("body line {:?} before the first hunk header", escape_bytes(u)))),
                };
                let mut content = u[1..].to_vec();
                let mut marker = false;
                if units.get(i + 1).map_or(false, |n| n[0] == b'\\') {
                    if units[i + 1] != MARKER {
                        return Err(other(format!("malformed marker line {:?}", escape_bytes(units[i + 1]))));
                    }
                    if content.pop() != Some(b'\n') {
                        return Err(other(format!("marker after a line that was not closed by the renderer's LF: {:?}", escape_bytes(u))));
                    }
                    if matches!(content.last(), Some(b'\n') | Some(b'\r')) {
                        return Err(other(format!("'\\ No newline at end of file' after a line that has a terminator: {:?}", escape_bytes(u))));
                    }
                    marker = true;
                    i += 1;
                }
                cur.1.push(BodyLine { tag: u[0], content, marker, raw: u });
                i += 1;
            }
            _ => return Err(other(format!("unexpected line {:?} in the rendered diff", escape_bytes(u)))),
        }
    }
    if hunks.is_empty() {
        return Err(other("no hunk in a non-empty rendering".into()));
    }
    // strict application
    let mut result: Vec<Vec<u8>> = vec![];
    let mut cursor = 0usize;
    let mut markers = 0;
    for (hi, ((o, n), body)) in hunks.iter().enumerate() {
        let old_count = body.iter().filter(|l| l.tag != b'+').count();
        let new_count = body.iter().filter(|l| l.tag != b'-').count();
        if o.1 != old_count || n.1 != new_count {
            return Err((
                Kind::Header,
                format!("hunk {}: header says -{},{} +{},{} but the body has {} old-side and {} new-side lines", hi, o.0, o.1, n.0, n.1, old_count, new_count),
            ));
        }
        if !body.iter().any(|l| l.tag != b' ') {
            return Err(other(format!("hunk {} contains no change", hi)));
        }
        let lead = body.iter().take_while(|l| l.tag == b' ').count();
        let trail = body.iter().rev().take_while(|l| l.tag == b' ').count();
        if lead > radius || trail > radius {
            return Err(other(format!("hunk {}: {} leading / {} trailing context lines with radius {}", hi, lead, trail, radius)));
        }
        for w in body.windows(2) {
            if w[0].tag == b'+' && w[1].tag == b'-' {
                return Err(other(format!("hunk {}: an insertion precedes a deletion inside one run of changes", hi)));
            }
        }
        // old start: 1-based first line, or (count 0) the line before
        let start = if o.1 == 0 { o.0 } else { o.0.wrapping_sub(1) };
        if o.1 != 0 && o.0 == 0 {
            return Err((Kind::Header, format!("hunk {}: old start 0 with a non-empty old side", hi)));
        }
        if start < cursor {
            return Err((Kind::Header, format!("hunk {}: old start line {} overlaps or precedes the previous hunk (next free old line is {})", hi, o.0, cursor + 1)));
        }
        if start > old_lines.len() {
            return Err((Kind::Header, format!("hunk {}: old start {} beyond the old text ({} lines)", hi, o.0, old_lines.len())));
        }
        for l in &old_lines[cursor..start] {
            result.push(l.to_vec());
        }
        cursor = start;
        let nstart = if n.1 == 0 { n.0 } else { n.0.wrapping_sub(1) };
        if n.1 != 0 && n.0 == 0 {
            return Err((Kind::Header, format!("hunk {}: new start 0 with a non-empty new side", hi)));
        }
        if nstart != result.len() {
            return Err((
                Kind::Header,
                format!("hunk {}: header new start {},{} but {} new lines have been produced before this hunk", hi, n.0, n.1, result.len()),
            ));
        }
        for (li, l) in body.iter().enumerate() {
            if l.marker {
                markers += 1;
            }
            match l.tag {
                b' ' | b'-' => {
                    match old_lines.get(cursor) {
                        Some(ol) if *ol == &l.content[..] => {}
                        Some(ol) => {
                            // a stale header start shows up as a context/deletion mismatch at the stated position
                            let kind = if li == 0 { Kind::Header } else { Kind::Other };
                            return Err((
                                kind,
                                format!("hunk {} line {}: {:?} does not match old line {} {:?}", hi, li, escape_bytes(&l.content), cursor + 1, escape_bytes(ol)),
                            ));
                        }
                        None => return Err((Kind::Header, format!("hunk {} line {}: beyond the end of the old text", hi, li))),
                    }
                    if l.tag == b' ' {
                        result.push(l.content.clone());
                    }
                    cursor += 1;
                }
                _ => result.push(l.content.clone()),
            }
            let lacks = !matches!(l.content.last(), Some(b'\n') | Some(b'\r'));
            if hint && l.marker != lacks {
                return Err(other(format!("hunk {} line {}: marker present = {}, line lacks a terminator = {}", hi, li, l.marker, lacks)));
            }
            if !hint && l.marker {
                return Err(other("marker rendered although missing_newline_hint(false)".into()));
            }
        }
    }
    for l in &old_lines[cursor..] {
        result.push(l.to_vec());
    }
    if hint {
        let got: Vec<u8> = result.concat();
        if got != new {
            let _ = new_lines;
            return Err(other(format!("strictly applying the diff to old gives {:?}, new is {:?}", escape_bytes(&got), escape_bytes(new))));
        }
    }
    Ok((hunks.len(), markers))
}

/// an io::Write that accepts at most `max` bytes per call (short writes are legal)
struct Trickle {
    out: Vec<u8>,
    max: usize,
}
impl std::io::Write for Trickle {
    fn write(&mut self, buf: &[u8]) -> std::io::Result<usize> {
        let n = buf.len().min(self.max);
        self.out.extend_from_slice(&buf[..n]);
        Ok(n)
    }
    fn flush(&mut self) -> std::io::Result<()> {
        Ok(())
    }
}

struct Rendered {
    trickle: Vec<u8>,
    trickle_hunks: Vec<u8>,
    writer: Vec<u8>,
    display: String,
    per_hunk_writer: Vec<u8>,
    per_hunk_display: String,
    headers_ok: Result<(), String>,
    nohint_writer: Vec<u8>,
    /// a builder with a history: other settings first, the final ones last, rendered twice
    history_writer: (Vec<u8>, Vec<u8>),
    swaps: u64,
}

fn render<'a, T: DiffableStr + ?Sized + 'a>(d: &'a TextDiff<'a, 'a, 'a, T>, radius: usize, header: Option<(&str, &str)>) -> Rendered {
    let mut ud = d.unified_diff();
    ud.context_radius(radius);
    if let Some((a, b)) = header {
        ud.header(a, b);
    }
    let mut writer = vec![];
    ud.to_writer(&mut writer).unwrap();
    let max = [1usize, 3, 7, 64][(radius % 4 + header.map_or(0, |h| h.0.len())) % 4];
    let mut tw = Trickle { out: vec![], max };
    ud.to_writer(&mut tw).unwrap();
    let trickle = tw.out;
    let mut th = Trickle { out: vec![], max };
    let display = ud.to_string();
    let mut per_hunk_writer = vec![];
    let mut per_hunk_display = String::new();
    let mut headers_ok = Ok(());
    let mut first = true;
    for h in ud.iter_hunks() {
        if first {
            if let Some((a, b)) = header {
                per_hunk_writer.extend_from_slice(format!("--- {}\n+++ {}\n", a, b).as_bytes());
                per_hunk_display.push_str(&format!("--- {}\n+++ {}\n", a, b));
            }
            first = false;
        }
        let mut w = vec![];
        h.to_writer(&mut w).unwrap();
        h.to_writer(&mut th).unwrap();
        let s = h.to_string();
        let hs = format!("{}\n", h.header());
        if !s.starts_with(&hs) || !w.starts_with(hs.as_bytes()) {
            headers_ok = Err(format!("hunk output does not start with hunk.header() {:?}: {:?}", hs, s));
        }
        per_hunk_writer.extend_from_slice(&w);
        per_hunk_display.push_str(&s);
    }
    let mut ud2 = d.unified_diff();
    ud2.context_radius(radius).missing_newline_hint(false);
    if let Some((a, b)) = header {
        ud2.header(a, b);
    }
    let mut nohint_writer = vec![];
    ud2.to_writer(&mut nohint_writer).unwrap();
    // the builder as a history of setter calls (the last call of each setter decides), and one
    // builder rendered twice
    let mut ud3 = d.unified_diff();
    ud3.context_radius(radius.saturating_add(2)).header("x", "y\tz").missing_newline_hint(false);
    let _ = ud3.to_string();
    ud3.context_radius(radius).missing_newline_hint(true);
    match header {
        Some((a, b)) => {
            ud3.header(a, b);
        }
        None => {
            // a header cannot be unset: start from a fresh builder (made by the other constructor) that
            // only has the radius history
            ud3 = similar::udiff::UnifiedDiff::from_text_diff(d);
            ud3.context_radius(0).context_radius(radius);
        }
    }
    let mut h1 = vec![];
    ud3.to_writer(&mut h1).unwrap();
    let mut h2 = vec![];
    ud3.to_writer(&mut h2).unwrap();
    Rendered { trickle, trickle_hunks: th.out, writer, display, per_hunk_writer, per_hunk_display, headers_ok, nohint_writer, history_writer: (h1, h2), swaps: similar::verif::swap::swaps() }
}

/// header values 3..=5: old and new are two VIEWS INTO ONE BUFFER (`c.old`; the length of `c.new`
/// picks the shape and the cut, see common::alias_views); the header is `header - 3`
fn alias_of(c: &Case) -> Option<(std::ops::Range<usize>, std::ops::Range<usize>)> {
    if c.header < 3 || c.header >= 6 {
        return None;
    }
    let t = TextCase { old: c.old.clone(), new: c.new.clone(), tok: 0, alg: c.alg, bytes: c.bytes, opt: 0 };
    Some(alias_views(&t))
}

/// the case the oracle judges: for alias cases the two views as separate texts
fn effective(c: &Case) -> Case {
    match alias_of(c) {
        None => c.clone(),
        Some((ro, rn)) => Case { old: BStr(c.old.0[ro].to_vec()), new: BStr(c.old.0[rn].to_vec()), header: c.header - 3, ..c.clone() },
    }
}

fn render_case(c: &Case) -> Result<Rendered, String> {
    let cfg = config(c.alg);
    let header = HEADERS[(c.header % 3) as usize];
    if let Some((ro, rn)) = alias_of(c) {
        return guard(|| {
            similar::verif::swap::reset_swaps();
            match c.old.as_str() {
                Some(s) if !c.bytes => {
                    let d = cfg.diff_lines(&s[ro.clone()], &s[rn.clone()]);
                    render(&d, c.radius, header)
                }
                _ => {
                    let d = cfg.diff_lines(&c.old.0[ro.clone()], &c.old.0[rn.clone()]);
                    render(&d, c.radius, header)
                }
            }
        });
    }
    // header 6..9: the line diff is made under a deadline that has already passed; 9..12: under a
    // (virtual) clock that runs out at a later probe.  It is a line diff all the same
    let mut cfg = cfg;
    let mut virtual_k = None;
    if c.header >= 9 {
        cfg.deadline(far_future());
        virtual_k = Some(1 + (c.old.0.len() % 5) as u64);
    } else if c.header >= 6 {
        if let Some(past) = std::time::Instant::now().checked_sub(std::time::Duration::from_secs(5)) {
            cfg.deadline(past);
        }
    }
    let r = guard(|| {
        similar::verif::swap::reset_swaps();
        if c.bytes || c.old.as_str().is_none() || c.new.as_str().is_none() {
            similar::verif::clock::install(virtual_k);
            let d = cfg.diff_lines(&c.old.0[..], &c.new.0[..]);
            similar::verif::clock::install(None);
            render(&d, c.radius, header)
        } else {
            similar::verif::clock::install(virtual_k);
            let d = cfg.diff_lines(c.old.as_str().unwrap(), c.new.as_str().unwrap());
            similar::verif::clock::install(None);
            render(&d, c.radius, header)
        }
    });
    similar::verif::clock::install(None);
    r
}

fn remove_marker_lines(b: &[u8]) -> Vec<u8> {
    let mut out = vec![];
    for l in split_lines(b) {
        if l != MARKER {
            out.extend_from_slice(l);
        }
    }
    out
}

fn judge(c: &Case, r: &Rendered) -> Result<(usize, usize), (Kind, String)> {
    let header = HEADERS[(c.header % 3) as usize];
    let other = |m: String| (Kind::Other, m);
    let res = read_and_apply(&r.writer, &c.old.0, &c.new.0, c.radius, header, true)?;
    // byte writer vs Display
    let valid = c.old.as_str().is_some() && c.new.as_str().is_some();
    if valid {
        if r.display.as_bytes() != &r.writer[..] {
            return Err(other(format!("Display {:?} != to_writer {:?} on UTF-8 input", r.display, escape_bytes(&r.writer))));
        }
    } else if r.display != String::from_utf8_lossy(&r.writer) {
        return Err(other(format!("Display {:?} != lossy decoding of to_writer {:?}", r.display, escape_bytes(&r.writer))));
    }
    if r.trickle != r.writer {
        return Err(other(format!("to_writer into a writer that accepts only a few bytes per call gives {:?}, into a Vec {:?}", escape_bytes(&r.trickle[..r.trickle.len().min(200)]), escape_bytes(&r.writer[..r.writer.len().min(200)]))));
    }
    {
        // per-hunk writes into the short-writing writer: the body without the file header
        let body = match header {
            Some((a, b)) if !r.writer.is_empty() => &r.writer[format!("--- {}\n+++ {}\n", a, b).len()..],
            _ => &r.writer[..],
        };
        if r.trickle_hunks != body {
            return Err(other("UnifiedDiffHunk::to_writer into a short-writing writer loses or reorders bytes".into()));
        }
    }
    if r.per_hunk_writer != r.writer {
        return Err(other(format!("concatenated UnifiedDiffHunk::to_writer {:?} != UnifiedDiff::to_writer {:?}", escape_bytes(&r.per_hunk_writer), escape_bytes(&r.writer))));
    }
    if r.per_hunk_display != r.display {
        return Err(other("concatenated UnifiedDiffHunk Display != UnifiedDiff Display".into()));
    }
    if let Err(m) = &r.headers_ok {
        return Err(other(m.clone()));
    }
    // every line's bytes unchanged: all old '-'/' ' and new '+' contents were compared byte-wise by the applier.
    // missing_newline_hint(false) == default output without the marker lines
    let want = remove_marker_lines(&r.writer);
    if r.nohint_writer != want {
        return Err(other(format!("missing_newline_hint(false) output {:?} != default output without marker lines {:?}", escape_bytes(&r.nohint_writer), escape_bytes(&want))));
    }
    if r.history_writer.0 != r.writer || r.history_writer.1 != r.writer {
        return Err(other(format!(
            "a builder configured through a history of setter calls (other radius / header / hint first, the final ones last; rendered once in between and twice at the end) gives {:?} and {:?}, a fresh builder {:?}",
            escape_bytes(&r.history_writer.0[..r.history_writer.0.len().min(300)]), escape_bytes(&r.history_writer.1[..r.history_writer.1.len().min(300)]), escape_bytes(&r.writer[..r.writer.len().min(300)])
        )));
    }
    // the quick function equals the builder (it takes no deadline: not for deadline-made diffs)
    if valid && c.header < 6 {
        let (o, n) = (c.old.as_str().unwrap(), c.new.as_str().unwrap());
        let alg = alg_of(c.alg);
        let radius = c.radius;
        let q = guard(|| similar::udiff::unified_diff(alg, o, n, radius, header)).map_err(|p| other(format!("udiff::unified_diff: {}", p)))?;
        if q != r.display {
            return Err(other(format!("udiff::unified_diff(..) {:?} != builder output {:?}", q, r.display)));
        }
    }
    Ok(res)
}

/// equal inputs render as the empty string whatever the builder's deadline says (the algorithms
/// recognise equal inputs before they consult the clock)
fn equal_inputs_with_deadline(c: &Case) -> Result<(), String> {
    let header = HEADERS[(c.header % 3) as usize];
    for variant in 0..3 {
        let what = ["deadline(5 s ago)", "timeout(0)", "deadline(far) + virtual clock expiring at the first probe"][variant];
        let out = guard(|| {
            let mut cfg = config(c.alg);
            match variant {
                0 => {
                    if let Some(past) = std::time::Instant::now().checked_sub(std::time::Duration::from_secs(5)) {
                        cfg.deadline(past);
                    }
                }
                1 => {
                    cfg.timeout(std::time::Duration::from_secs(0));
                }
                _ => {
                    cfg.deadline(far_future());
                    similar::verif::clock::install(Some(0));
                }
            }
            let s = if c.bytes || c.old.as_str().is_none() {
                let d = cfg.diff_lines(&c.old.0[..], &c.new.0[..]);
                let mut ud = d.unified_diff();
                ud.context_radius(c.radius);
                if let Some((a, b)) = header {
                    ud.header(a, b);
                }
                ud.to_string()
            } else {
                let d = cfg.diff_lines(c.old.as_str().unwrap(), c.new.as_str().unwrap());
                let mut ud = d.unified_diff();
                ud.context_radius(c.radius);
                if let Some((a, b)) = header {
                    ud.header(a, b);
                }
                ud.to_string()
            };
            similar::verif::clock::install(None);
            s
        })?;
        if !out.is_empty() {
            return Err(format!("equal inputs diffed with {} render as {:?}, expected the empty string", what, out));
        }
    }
    Ok(())
}

pub fn check_case(c0: &Case, obs: &mut Obs) -> Verdict {
    // rendering uses the case as generated (alias cases: two views of one buffer), the oracle judges
    // the two texts
    let eff = effective(c0);
    let c = &eff;
    obs.class_if(c0.header >= 3 && c0.header < 6, "old and new are views into one buffer");
    obs.class_if(c0.header >= 6, "line diff made under a deadline that expires (before the start or in mid-run)");
    if c.old == c.new {
        if let Err(m) = equal_inputs_with_deadline(c) {
            return Verdict::Fail(format!("{} radius {}: {}", alg_name(c.alg), c.radius, m));
        }
        obs.class("equal inputs (also rendered under expired deadlines)");
    }
    let r = match render_case(c0) {
        Ok(r) => r,
        Err(p) => return Verdict::Fail(format!("rendering: {}", p)),
    };
    let valid = c.old.as_str().is_some() && c.new.as_str().is_some();
    obs.class(alg_name(c.alg));
    obs.class_if(!valid, "invalid UTF-8 bytes");
    obs.class_if(c.radius == 0, "radius 0");
    obs.class_if(c.header % 3 != 0, "file header set");
    obs.class_if(r.swaps > 0, "compaction swap reached");
    obs.class_if(c.old.0.contains(&b'\r') || c.new.0.contains(&b'\r'), "CR / CRLF lines");
    let lacks = |b: &[u8]| !b.is_empty() && !matches!(b.last(), Some(b'\n') | Some(b'\r'));
    obs.class_if(lacks(&c.old.0), "old lacks final newline");
    obs.class_if(lacks(&c.new.0), "new lacks final newline");
    obs.class_if(c.old.0.iter().filter(|b| **b == b'\n').count() > 100 || c.new.0.iter().filter(|b| **b == b'\n').count() > 100, "more than 100 lines (IdentifyDistinct path)");
    match judge(c, &r) {
        Ok((hunks, markers)) => {
            obs.nontrivial = hunks >= 1;
            obs.class_if(hunks >= 2, ">= 2 hunks");
            obs.class_if(markers > 0, "marker rendered");
            Verdict::Pass
        }
        Err((Kind::Other, m)) => Verdict::Fail(format!("{} radius {}: {}", alg_name(c.alg), c.radius, m)),
        Err((Kind::Header, m)) => {
            similar::verif::swap::set_repair(true);
            let r2 = render_case(c0);
            let j2 = r2.as_ref().map(|r2| judge(c, r2));
            similar::verif::swap::set_repair(false);
            match j2 {
                Ok(j2) => match j2 {
                    Ok(_) => {
                        obs.nontrivial = true;
                        obs.class("known finding D7 hit");
                        Verdict::Known(D7)
                    }
                    Err((_, m2)) => Verdict::Fail(format!("{} radius {}: {} — persists with the swap repair on ({})", alg_name(c.alg), c.radius, m, m2)),
                },
                Err(p) => Verdict::Fail(format!("rendering with swap repair: {}", p.clone())),
            }
        }
    }
}

fn strat(tier: Tier) -> BoxedStrategy<Case> {
    // (1 in ~40: "all the context there is", radii at the top of the integer range)
    let radius = prop_oneof![9 => Just(0usize), 6 => Just(1usize), 6 => Just(2usize), 9 => Just(3usize), 3 => Just(4usize), 3 => Just(7usize), 3 => Just(50usize), 1 => prop_oneof![Just(usize::MAX), Just(1usize << 63), Just((1usize << 63) + 3), Just(usize::MAX / 2)]];
    let texts = prop_oneof![
        6 => crate::gen::line_text_pair(tier.pick(40, 300), false),
        1 => crate::gen::line_text_pair_sized(90, tier.pick(140, 300), false),
        3 => crate::gen::line_text_pair(tier.pick(40, 120), true),
        1 => crate::gen::text_pair(30, false),
    ];
    let radius2 = prop_oneof![Just(0usize), Just(1usize), Just(3usize)];
    let plain = (texts, 0u8..3, any::<bool>(), radius, prop_oneof![18 => 0u8..3, 2 => 3u8..6, 1 => 6u8..12]).prop_map(|((old, new), alg, bytes, radius, header)| Case { old, new, alg, bytes, radius, header });
    // many distinct lines (> 255 ids) in texts of 101..600 lines
    let distinct = (distinct_line_case(tier.pick(300, 600)), radius2.clone(), 0u8..3).prop_map(|(t, radius, header)| Case { old: t.old, new: t.new, alg: t.alg, bytes: t.bytes, radius, header });
    // a very long line (more than 8 KiB) among short ones
    let long_line = (crate::gen::line_text_pair(8, false), any::<u16>(), 8192usize..9300, 0u8..3, 0u8..3, any::<bool>(), radius2).prop_map(|((old, new), at, len, which, alg, bytes, radius)| {
        let long: Vec<u8> = std::iter::repeat(b'x').take(len).chain(std::iter::once(b'\n')).collect();
        let put = |t: &BStr, at: u16| {
            let lines = split_lines(&t.0);
            let p = crate::gen::pos(at, lines.len());
            let mut v: Vec<u8> = lines[..p].concat();
            if !v.is_empty() && !matches!(v.last(), Some(b'\n') | Some(b'\r')) {
                v.push(b'\n');
            }
            v.extend_from_slice(&long);
            v.extend_from_slice(&lines[p..].concat());
            BStr(v)
        };
        let (o, n) = match which {
            0 => (put(&old, at), new),
            1 => (old, put(&new, at)),
            _ => (put(&old, at), put(&new, at)),
        };
        Case { old: o, new: n, alg, bytes, radius, header: 0 }
    });
    prop_oneof![200 => plain, 2 => distinct, 1 => long_line].boxed()
}

const LINES: &[&[u8]] = &[b"a\n", b"b\n", b"a\r\n", b"a"];

fn enum_small(tier: Tier, f: &mut dyn FnMut(Case) -> bool) {
    let mut texts: Vec<Vec<u8>> = vec![];
    crate::gen::all_atom_strings(LINES, tier.pick(4, 5), &mut |s| {
        texts.push(s);
        true
    });
    for a in &texts {
        for b in &texts {
            for radius in [0usize, 1] {
                let alg = ((a.len() + b.len()) % 3) as u8;
                let c = Case { old: BStr(a.clone()), new: BStr(b.clone()), alg, bytes: false, radius, header: 0 };
                if !f(c) {
                    return;
                }
            }
        }
    }
}

impl Prop for C05 {
    type Case = Case;
    const ID: &'static str = "C05";
    fn rule() -> String {
        "1 random case in 10 renders the diff of two VIEWS INTO ONE BUFFER (truncated copy, tail view, adjacent views); 1 in 20 renders a line diff that was made under a deadline which had passed before the start or runs out at one of the first probes; cases = (old, new line texts, algorithm, str | [u8], context radius in {0,1,2,3,4,7,50} and (1 case in ~40) radii at the top of the integer range, header in {none, (a,b), names with space/tab/non-ASCII}); texts are line lists with LF/CRLF/CR terminators, optional missing final newline, many repeated lines, diff-looking lines ('-y', '+z', '@@ -1 +1 @@', '\\ No newline at end of file', '--- a'), for [u8] invalid UTF-8; new = independent or mutate(old) at line level; plus texts of 101-300/600 almost-all-distinct lines, texts containing a line of more than 8 KiB, and two fixed 70 000-line texts; enumeration of all pairs of texts of <= 4 (thorough 5) lines over {a LF, b LF, a CRLF, a (unterminated)} x radius {0,1}. Oracle: independent reader (file header, hunk headers, body lines, marker) and strict applier: counts == body counts, starts == true positions, increasing and non-overlapping, every context/deletion line equals the old line at that position, result == new byte for byte, marker exactly on unterminated lines, equal inputs => empty output, each hunk has a change, <= radius context at the edges, deletions before insertions; Display == writer (UTF-8) or == lossy(writer); to_writer into a writer that accepts only 1/3/7/64 bytes per call == to_writer into a Vec; per-hunk rendering and hunk.header() agree; missing_newline_hint(false) == output without marker lines; udiff::unified_diff == builder (diffs made without a deadline). Header start/count failures are re-executed with the swap repair on: if they vanish they are known finding D7. Non-trivial = at least one hunk; distinct = distinct serialized case.".into()
    }
    fn assumptions() -> Vec<String> {
        vec![
            "newline_terminated(false) overrides and non-line diffs are outside the stated domain and not generated".into(),
            "header names contain no line breaks".into(),
            "the reader accepts both '-1' and '-1,1' forms".into(),
        ]
    }
    fn stages(tier: Tier) -> Vec<Stage<Case>> {
        vec![
            Stage {
                name: "enum-small",
                kind: StageKind::Enumerate {
                    scope: format!("all pairs of texts of <= {} lines over {{a LF, b LF, a CRLF, a}} x radius {{0,1}}, algorithm rotating", tier.pick(4, 5)),
                    exhaustive: false,
                    gen: enum_small,
                },
            },
            Stage {
                name: "huge",
                kind: StageKind::Enumerate { scope: "5 fixed line texts: 2 with 70 000 distinct lines (token ids beyond 16 bits), radius 3, and per algorithm 1100 x 1100 unrelated distinct lines between a common head and tail".into(), exhaustive: true, gen: |_t, f| {
                    for t in huge_line_cases() {
                        if !f(Case { old: t.old, new: t.new, alg: t.alg, bytes: t.bytes, radius: 3, header: 1 }) {
                            return;
                        }
                    }
                } },
            },
            Stage { name: "random", kind: StageKind::Random { strategy: strat, cases: tier.pick(600_000, 4_000_000) } },
        ]
    }
    fn check(case: &Case, obs: &mut Obs) -> Verdict {
        check_case(case, obs)
    }
}
