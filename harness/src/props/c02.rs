//! C02 — captured ops (capture_diff*, TextDiff::ops) form a valid edit script old->new.

use super::common::*;
use crate::core::*;
use crate::gen::*;
use crate::oracle::*;
use proptest::prelude::*;
use serde::{Deserialize, Serialize};
use similar::{get_diff_ratio, DiffOp, DiffableStr, TextDiff};

pub struct C02;

#[derive(Clone, Debug, Serialize, Deserialize)]
pub enum Case {
    Seq(SeqCase),
    Text(TextCase),
}

/// the C02 oracle over a captured op list
pub fn judge_ops<T: Clone + PartialEq + std::fmt::Debug>(
    ops: &[DiffOp],
    old: &[T],
    or: std::ops::Range<usize>,
    new: &[T],
    nr: std::ops::Range<usize>,
) -> Result<(), String> {
    let eq = |i: usize, j: usize| old[i] == new[j];
    validate_ops(ops, or.clone(), nr.clone(), &eq).map_err(|m| format!("ops {:?}: {}", ops, m))?;
    let os = &old[or.clone()];
    let ns = &new[nr.clone()];
    match apply_ops(ops, old, new) {
        Some(v) if v == ns => {}
        o => return Err(format!("applying ops {:?} to old gives {:?}, expected {:?}", ops, o, ns)),
    }
    match unapply_ops(ops, old, new) {
        Some(v) if v == os => {}
        o => return Err(format!("inverting ops {:?} on new gives {:?}, expected {:?}", ops, o, os)),
    }
    if os == ns {
        if os.is_empty() && !ops.is_empty() {
            return Err(format!("two empty inputs give ops {:?}", ops));
        }
        if ops.iter().any(|o| !matches!(o, DiffOp::Equal { .. })) {
            return Err(format!("identical inputs give non-Equal ops {:?}", ops));
        }
    }
    let r = get_diff_ratio(ops, os.len(), ns.len());
    if !(0.0..=1.0).contains(&r) {
        return Err(format!("ratio {} outside 0..=1 (ops {:?})", r, ops));
    }
    if (r == 1.0) != (os == ns) {
        return Err(format!("ratio {} but inputs equal = {} (ops {:?})", r, os == ns, ops));
    }
    Ok(())
}

fn check_seq(c: &SeqCase, obs: &mut Obs) -> Verdict {
    let k = match c.k {
        None => None,
        Some(raw) => match probe_count(c) {
            Ok(t) => Some(eff_k(raw, t)),
            Err(p) => return Verdict::Fail(format!("capture with a never-expiring deadline: {}", p)),
        },
    };
    let ops = match capture(c, k) {
        Ok(o) => o,
        Err(p) => return Verdict::Fail(format!("capture (mode {}, k {:?}): {}", c.mode, k, p)),
    };
    if let Err(m) = judge_ops(&ops, &c.old, c.old_r(), &c.new, c.new_r()) {
        return Verdict::Fail(format!("{} mode {} k {:?}: {}", alg_name(c.alg), c.mode, k, m));
    }
    if k.is_none() && c.mode % 3 == 0 {
        // different item types on the two sides (new: PartialEq<old>, hashing differently): the ops
        // depend on the equality pattern only
        let oa: Vec<u64> = c.old.iter().map(|x| *x as u64).collect();
        let na: Vec<crate::oracle::items::Id32> = c.new.iter().map(|x| crate::oracle::items::Id32(*x)).collect();
        match guard(|| similar::capture_diff(alg_of(c.alg), &oa[..], c.old_r(), &na[..], c.new_r())) {
            Ok(o) if o == ops => {}
            Ok(o) => return Verdict::Fail(format!("{}: old items u64 / new items Id32 (PartialEq<u64>, unrelated Hash) give {:?}, u32 items give {:?}", alg_name(c.alg), o, ops)),
            Err(p) => return Verdict::Fail(format!("capture_diff over different item types: {}", p)),
        }
    }
    if k.is_none() && c.mode % 3 == 1 && !c.old.is_empty() {
        // old and new are two windows of ONE buffer that start at the same address (e.g. a log and
        // its earlier, shorter state)
        let buf = &c.old;
        let (i, j) = (c.or.1.min(buf.len()), c.nr.1.min(buf.len()));
        let (a, b) = (&buf[..i], &buf[..j]);
        match guard(|| similar::capture_diff_slices(alg_of(c.alg), a, b)) {
            Ok(o) => {
                if let Err(m) = judge_ops(&o, a, 0..a.len(), b, 0..b.len()) {
                    return Verdict::Fail(format!("{}: capture_diff_slices over the prefixes ..{} and ..{} of ONE buffer {:?}: {}", alg_name(c.alg), i, j, buf, m));
                }
            }
            Err(p) => return Verdict::Fail(format!("capture_diff_slices over two prefixes of one buffer: {}", p)),
        }
        obs.class("two prefixes of one buffer");
    }
    if k.is_none() {
        // the deadline-taking twins called without a deadline are the same functions
        let twins = guard(|| {
            let a = similar::capture_diff_deadline(alg_of(c.alg), &c.old[..], c.old_r(), &c.new[..], c.new_r(), None);
            let b = shift_ops(&similar::capture_diff_slices_deadline(alg_of(c.alg), c.old_slice(), c.new_slice(), None), c.or.0, c.nr.0);
            (a, b)
        });
        match twins {
            Ok((a, b)) if a == ops && b == ops => {}
            Ok((a, b)) => return Verdict::Fail(format!("{}: capture_diff_deadline(None) {:?} / capture_diff_slices_deadline(None) {:?} differ from the capture without deadline {:?}", alg_name(c.alg), a, b, ops)),
            Err(p) => return Verdict::Fail(format!("capture_diff_deadline(None): {}", p)),
        }
    }
    let changes = ops.iter().filter(|o| !matches!(o, DiffOp::Equal { .. })).count();
    obs.nontrivial = ops.len() >= 2 && changes >= 1;
    obs.class(alg_name(c.alg));
    obs.class_if(!c.is_full(), "sub-range");
    obs.class_if(k.is_some(), "deadline (virtual clock)");
    obs.class_if(c.mode % 3 == 1, "capture_diff_slices");
    obs.class_if(c.mode % 3 == 2, "offset lookups");
    obs.class_if(ops.iter().any(|o| matches!(o, DiffOp::Replace { .. })), "has Replace");
    Verdict::Pass
}

fn judge_text<T: DiffableStr + ?Sized + std::fmt::Debug>(diff: &TextDiff<T>, same_input: bool, obs: &mut Obs) -> Result<(), String> {
    let old = diff.old_slices();
    let new = diff.new_slices();
    let ops = diff.ops();
    let eq = |i: usize, j: usize| old[i] == new[j];
    validate_ops(ops, 0..old.len(), 0..new.len(), &eq).map_err(|m| format!("ops {:?}: {}", ops, m))?;
    let applied: Option<Vec<&T>> = apply_ops(ops, old, new);
    if applied.as_deref() != Some(new) {
        return Err(format!("applying TextDiff::ops to the old tokens does not give the new tokens ({:?})", ops));
    }
    let un: Option<Vec<&T>> = unapply_ops(ops, old, new);
    if un.as_deref() != Some(old) {
        return Err(format!("inverting TextDiff::ops on the new tokens does not give the old tokens ({:?})", ops));
    }
    let r = diff.ratio();
    if !(0.0..=1.0).contains(&r) {
        return Err(format!("TextDiff::ratio {} outside 0..=1", r));
    }
    let tokens_equal = old == new;
    if (r == 1.0) != tokens_equal {
        return Err(format!("TextDiff::ratio {} but token sequences equal = {}", r, tokens_equal));
    }
    if same_input && ops.iter().any(|o| !matches!(o, DiffOp::Equal { .. })) {
        return Err(format!("identical texts give non-Equal ops {:?}", ops));
    }
    if old.is_empty() && new.is_empty() && !ops.is_empty() {
        return Err(format!("two empty texts give ops {:?}", ops));
    }
    let changes = ops.iter().filter(|o| !matches!(o, DiffOp::Equal { .. })).count();
    obs.nontrivial = ops.len() >= 2 && changes >= 1;
    obs.class_if(old.len() > 100 || new.len() > 100, "text: > 100 tokens");
    Ok(())
}

fn check_text(c: &TextCase, obs: &mut Obs) -> Verdict {
    let mut cfg = config(c.alg);
    // a third of the text cases are diffed under a deadline that expires at probe 0, 1, 2 or 5
    // (virtual clock): the stored ops must still be a valid script
    let k = match c.opt % 12 {
        8 => Some(0u64),
        9 => Some(1),
        10 => Some(2),
        11 => Some(5),
        _ => None,
    };
    if let Some(k) = k {
        cfg.deadline(far_future());
        similar::verif::clock::install(Some(k));
        obs.class("text diff under a deadline (virtual clock)");
    }
    obs.class("text diff");
    obs.class(TOKENIZERS[(c.tok % 5) as usize]);
    let same = c.old == c.new;
    let r = if c.use_bytes() {
        obs.class("text: [u8]");
        guard(|| {
            let d = diff_bytes(&cfg, c.tok, &c.old.0, &c.new.0);
            exercise(&d, c.opt);
            judge_text(&d, same, obs)
        })
    } else {
        guard(|| {
            let d = diff_str(&cfg, c.tok, c.old.as_str().unwrap(), c.new.as_str().unwrap());
            exercise(&d, c.opt);
            judge_text(&d, same, obs)
        })
    };
    match r {
        Ok(Ok(())) => Verdict::Pass,
        Ok(Err(m)) => Verdict::Fail(format!("{} {}: {}", alg_name(c.alg), TOKENIZERS[(c.tok % 5) as usize], m)),
        Err(p) => Verdict::Fail(format!("text diff: {}", p)),
    }
}

fn strat(tier: Tier) -> BoxedStrategy<Case> {
    prop_oneof![
        16 => seq_case_k(tier.pick(100, 300), true, 3, true).prop_map(Case::Seq),
        1 => prop_oneof![9 => seq_case(12, true, 3), 1 => big_seq_case(tier)].prop_map(Case::Seq),
        4 => (text_case_mix(tier.pick(120, 160)), 0u8..12).prop_map(|(mut c, o)| { c.opt = o; Case::Text(c) }),
        1 => (big_line_case(tier.pick(130, 300)), 0u8..12).prop_map(|(mut c, o)| { c.opt = o; Case::Text(c) }),
        1 => distinct_line_case(tier.pick(300, 600)).prop_map(Case::Text),
    ]
    .boxed()
}

fn enum_small(tier: Tier, f: &mut dyn FnMut(Case) -> bool) {
    // all pairs over {0,1,2} x algorithms x {no deadline, expiry at probe 0, 1, 2}
    let seqs = all_seqs(3, tier.pick(4, 5));
    for a in &seqs {
        for b in &seqs {
            for alg in 0..3u8 {
                for k in [None, Some(0u64), Some(1), Some(2)] {
                    let mut c = SeqCase::full(alg, a.clone(), b.clone());
                    c.k = k;
                    if !f(Case::Seq(c)) {
                        return;
                    }
                }
            }
        }
    }
}

impl Prop for C02 {
    type Case = Case;
    const ID: &'static str = "C02";
    fn rule() -> String {
        "cases = Seq(algorithm, old, new, ranges, entry point in {capture_diff(_deadline), capture_diff_slices(_deadline) on extracted slices, IdentifyDistinct offset lookups}, deadline in {none, virtual clock expiring at probe k}) | Text(old, new, tokenizer, algorithm, str/[u8]); enumeration of all pairs over {0,1,2} x {no deadline, k=0,1,2} plus proptest mixture. Deadline-free Seq cases are also diffed with different item types on the two sides (same ops required) and, for the slice entry point, as two prefixes of ONE buffer. Oracle: primary-index walk, element equality of Equal ops, apply/invert round trip, identical inputs => only Equal ops, ratio in 0..=1 and ==1 iff equal. Non-trivial = at least 2 ops including a change; distinct = distinct serialized case.".into()
    }
    fn assumptions() -> Vec<String> {
        vec![
            "deadline expiry is placed by the cfg(similar_verif) virtual clock (probe-indexed time); the raw selector k is mapped monotonically onto 0..=number of probes".into(),
            "carried indices are judged by C11, normal form by C09".into(),
        ]
    }
    fn stages(tier: Tier) -> Vec<Stage<Case>> {
        vec![
            Stage {
                name: "enum-small",
                kind: StageKind::Enumerate {
                    scope: format!("all (old,new) over {{0,1,2}} with lengths <= {} x 3 algorithms x deadline in {{none, expiry at probe 0,1,2}}", tier.pick(4, 5)),
                    exhaustive: true,
                    gen: enum_small,
                },
            },
            Stage {
                name: "huge",
                kind: StageKind::Enumerate { scope: "texts of exactly N / N+1 tokens for N at and around the powers of two from 64 to 8192 (lines, words, chars; every algorithm, LCS up to 1025 tokens); 5 fixed line texts: 2 with 70 000 / 66 000 distinct lines (token ids beyond 16 bits, once with both sides below 65 536 lines), and per algorithm 1100 x 1100 unrelated distinct lines between a common head and tail (LCS table beyond 2^20 cells); near-identical sequences of N / N+1 items for N at and around the powers of two from 64 to 8192 per algorithm (LCS up to 1025); 6 sequence diffs with thousands of ops (every third of 7000 items removed, an item inserted after every third of 6000, every fourth of 5000 replaced; Myers, Patience)".into(), exhaustive: true, gen: |_t, f| {
                    for c in huge_line_cases() {
                        if !f(Case::Text(c)) {
                            return;
                        }
                    }
                    for c in pow2_text_cases() {
                        if !f(Case::Text(c)) {
                            return;
                        }
                    }
                    // diffs with thousands of ops in one script (beyond 4096 raw ops)
                    for c in many_ops_cases() {
                        if !f(Case::Seq(c)) {
                            return;
                        }
                    }
                    for c in pow2_seq_cases(1025) {
                        if !f(Case::Seq(c)) {
                            return;
                        }
                    }
                } },
            },
            Stage { name: "random", kind: StageKind::Random { strategy: strat, cases: tier.pick(1_000_000, 6_000_000) } },
        ]
    }
    fn check(case: &Case, obs: &mut Obs) -> Verdict {
        match case {
            Case::Seq(c) => check_seq(c, obs),
            Case::Text(c) => check_text(c, obs),
        }
    }
}
