//! C10 — Compact and Replace preserve meaning and cost of any valid script.

use crate::core::*;
use crate::gen::*;
use crate::oracle::*;
use proptest::collection::vec;
use proptest::prelude::*;
use serde::{Deserialize, Serialize};
use similar::algorithms::{Capture, Compact, DiffHook, Replace};
use similar::DiffOp;

pub struct C10;

#[derive(Clone, Debug, PartialEq, Eq, Hash, Serialize, Deserialize)]
pub struct ScriptCase {
    pub old: Vec<u32>,
    pub new: Vec<u32>,
    /// a valid edit script old -> new made of Equal/Delete/Insert calls with exact indices
    pub script: Vec<SOp>,
    /// 0 Compact<Capture>, 1 Replace<Capture>, 2 Compact<Replace<Capture>>, 3 Replace<Compact<Capture>>
    pub stack: u8,
    /// the script covers old[base.0..] and new[base.1..] (the items before are padding that the
    /// script never mentions): index arithmetic with non-zero bases
    #[serde(default)]
    pub base: (usize, usize),
}

impl ScriptCase {
    /// pads both sequences in front and shifts the script accordingly
    pub fn with_base(mut self, pad_old: Vec<u32>, pad_new: Vec<u32>) -> ScriptCase {
        let (po, pn) = (pad_old.len(), pad_new.len());
        self.script = self
            .script
            .iter()
            .map(|s| match *s {
                SOp::Equal(a, b, l) => SOp::Equal(a + po, b + pn, l),
                SOp::Delete(a, l, b) => SOp::Delete(a + po, l, b + pn),
                SOp::Insert(a, b, l) => SOp::Insert(a + po, b + pn, l),
                SOp::Replace(a, al, b, bl) => SOp::Replace(a + po, al, b + pn, bl),
            })
            .collect();
        let mut o = pad_old;
        o.extend(self.old);
        let mut n = pad_new;
        n.extend(self.new);
        self.old = o;
        self.new = n;
        self.base = (self.base.0 + po, self.base.1 + pn);
        self
    }
}

/// builds a valid script from a list of choices (kind, len); deterministic interpreter
pub fn build_script(old: &[u32], new: &[u32], choices: &[(u8, u8)]) -> Vec<SOp> {
    let (n, m) = (old.len(), new.len());
    let (mut i, mut j) = (0usize, 0usize);
    let mut out = vec![];
    let mut ci = 0;
    while i < n || j < m {
        let (kind, len) = if ci < choices.len() { choices[ci] } else { (0, 255) };
        ci += 1;
        let len = (len as usize).max(1);
        let can_eq = i < n && j < m && old[i] == new[j];
        // kind 0/3: prefer equal; 1: delete; 2: insert (falling back to what is possible)
        let k = match kind % 4 {
            0 | 3 if can_eq => 0,
            1 if i < n => 1,
            2 if j < m => 2,
            _ => {
                if can_eq && ci > choices.len() {
                    0
                } else if i < n && (kind % 2 == 0 || j >= m) {
                    1
                } else if j < m {
                    2
                } else {
                    1
                }
            }
        };
        match k {
            0 => {
                let mut l = 0;
                while l < len && i + l < n && j + l < m && old[i + l] == new[j + l] {
                    l += 1;
                }
                out.push(SOp::Equal(i, j, l));
                i += l;
                j += l;
            }
            1 => {
                let l = len.min(n - i).min(if len == 255 { 3 } else { 12 });
                out.push(SOp::Delete(i, l, j));
                i += l;
            }
            _ => {
                let l = len.min(m - j).min(if len == 255 { 3 } else { 12 });
                out.push(SOp::Insert(i, j, l));
                j += l;
            }
        }
    }
    out
}

pub fn script_is_valid(c: &ScriptCase) -> Result<(), String> {
    let ev = ops_to_events(&c.script.iter().map(|s| s.to_op()).collect::<Vec<_>>());
    let mut ev2 = ev.clone();
    ev2.push(Ev::Finish);
    // exact carried indices are part of the generator contract: single-event runs are exact by
    // validate_raw; multi-event runs are checked here
    let (old, new) = (&c.old, &c.new);
    validate_raw(&ev2, c.base.0..old.len(), c.base.1..new.len(), &|i, j| old[i] == new[j])?;
    let (mut co, mut cn) = c.base;
    for e in &ev {
        match *e {
            Ev::Equal(_, _, l) => {
                co += l;
                cn += l
            }
            Ev::Delete(_, l, n) => {
                if n != cn {
                    return Err("generator: inexact carried index".into());
                }
                co += l
            }
            Ev::Insert(o, _, l) => {
                if o != co {
                    return Err("generator: inexact carried index".into());
                }
                cn += l
            }
            _ => return Err("generator: unexpected event".into()),
        }
    }
    Ok(())
}

pub fn drive<D: DiffHook>(d: &mut D, script: &[SOp]) -> Result<(), D::Error> {
    for s in script {
        s.to_op().apply_to_hook(d)?;
    }
    Ok(())
}

pub fn check_case(c: &ScriptCase, obs: &mut Obs) -> Verdict {
    if let Err(m) = script_is_valid(c) {
        // a generator bug must never be reported as a violation
        panic!("generator self-test failed: {} for {:?}", m, c);
    }
    let (old, new) = (&c.old, &c.new);
    let eq = |i: usize, j: usize| old[i] == new[j];
    let input_ops: Vec<DiffOp> = c.script.iter().map(|s| s.to_op()).collect();
    let (d0, i0, _) = ops_cost(&input_ops);
    let stack = c.stack % 6;
    let out: Result<Result<Vec<DiffOp>, String>, String> = guard(|| match stack {
        0 => {
            let mut h = Compact::new(Capture::new(), &old[..], &new[..]);
            drive(&mut h, &c.script).unwrap();
            if !h.as_ref().ops().is_empty() {
                return Err(format!("Compact forwarded {:?} before finish", h.as_ref().ops()));
            }
            h.finish().unwrap();
            Ok(h.into_inner().into_ops())
        }
        1 => {
            let mut h = Replace::new(Capture::new());
            drive(&mut h, &c.script).unwrap();
            h.finish().unwrap();
            Ok(h.into_inner().into_ops())
        }
        3 => {
            // the reversed stacking: Replace feeds replace()/delete()/insert() calls into Compact
            let mut h = Replace::new(Compact::new(Capture::new(), &old[..], &new[..]));
            drive(&mut h, &c.script).unwrap();
            h.finish().unwrap();
            Ok(h.into_inner().into_inner().into_ops())
        }
        5 => {
            // replace events arrive at a Replace adapter
            let mut h = Replace::new(Replace::new(Capture::new()));
            drive(&mut h, &c.script).unwrap();
            h.finish().unwrap();
            Ok(h.into_inner().into_inner().into_ops())
        }
        4 => {
            // the adapters only BORROW the hook behind them
            let mut cap = Capture::new();
            {
                let mut rep = Replace::new(&mut cap);
                {
                    let mut h = Compact::new(&mut rep, &old[..], &new[..]);
                    drive(&mut h, &c.script).unwrap();
                    h.finish().unwrap();
                }
            }
            Ok(cap.into_ops())
        }
        _ => {
            let mut h = Compact::new(Replace::new(Capture::new()), &old[..], &new[..]);
            drive(&mut h, &c.script).unwrap();
            if !h.as_ref().as_ref().ops().is_empty() {
                return Err("Compact<Replace> forwarded ops before finish".into());
            }
            h.finish().unwrap();
            Ok(h.into_inner().into_inner().into_ops())
        }
    });
    let name = ["Compact<Capture>", "Replace<Capture>", "Compact<Replace<Capture>>", "Replace<Compact<Capture>>", "Compact<&mut Replace<&mut Capture>>", "Replace<Replace<Capture>>"][stack as usize];
    let ops = match out {
        Ok(Ok(o)) => o,
        Ok(Err(m)) => return Verdict::Fail(format!("{}: {}", name, m)),
        Err(p) => return Verdict::Fail(format!("{} on script {:?}: {}", name, c.script, p)),
    };
    if let Err(m) = validate_ops(&ops, c.base.0..old.len(), c.base.1..new.len(), &eq) {
        return Verdict::Fail(format!("{}: script {:?} -> ops {:?}: {}", name, c.script, ops, m));
    }
    // a script of positive-length calls comes out as ops of positive length
    for (i, op) in ops.iter().enumerate() {
        let (_, o, n) = op.as_tag_tuple();
        let empty = match op {
            DiffOp::Equal { len, .. } => *len == 0,
            DiffOp::Delete { .. } => o.is_empty(),
            DiffOp::Insert { .. } => n.is_empty(),
            DiffOp::Replace { .. } => o.is_empty() || n.is_empty(),
        };
        if empty {
            return Verdict::Fail(format!("{}: script {:?} -> ops {:?}: op {} covers nothing", name, c.script, ops, i));
        }
    }
    let (d1, i1, _) = ops_cost(&ops);
    if (d1, i1) != (d0, i0) {
        return Verdict::Fail(format!(
            "{}: script deletes {} / inserts {} items, output deletes {} / inserts {} (script {:?} -> {:?})",
            name, d0, i0, d1, i1, c.script, ops
        ));
    }
    if stack == 2 || stack == 4 {
        if let Err(m) = normal_form(&ops, &eq) {
            return Verdict::Fail(format!("{}: script {:?} -> ops {:?}: not in normal form: {}", name, c.script, ops, m));
        }
    }
    if stack == 1 || stack == 5 {
        if let Err((_, m)) = carried_exact(&ops, c.base.0, c.base.1) {
            return Verdict::Fail(format!("{}: script {:?} -> ops {:?}: {}", name, c.script, ops, m));
        }
        // one Replace adapter used for two scripts in a row (segment-by-segment use): every script is
        // completed by its finish, so the second output is what a fresh adapter gives
        let twice = guard(|| {
            let mut h = Replace::new(Capture::new());
            drive(&mut h, &c.script).unwrap();
            h.finish().unwrap();
            drive(&mut h, &c.script).unwrap();
            h.finish().unwrap();
            h.into_inner().into_ops()
        });
        match twice {
            Ok(t) => {
                let mut want = ops.clone();
                want.extend(ops.iter().cloned());
                if t != want {
                    return Verdict::Fail(format!("{}: the script {:?} fed twice through ONE adapter (finish after each) gives {:?}, a fresh adapter gives {:?} each time", name, c.script, t, ops));
                }
            }
            Err(p) => return Verdict::Fail(format!("{} reused for a second script: {}", name, p)),
        }
    }
    let s = &c.script;
    let ins_before_del = s.windows(2).any(|w| matches!((w[0], w[1]), (SOp::Insert(..), SOp::Delete(..))));
    let split_eq = s.windows(2).any(|w| matches!((w[0], w[1]), (SOp::Equal(..), SOp::Equal(..))));
    let split_chg = s.windows(2).any(|w| matches!((w[0], w[1]), (SOp::Delete(..), SOp::Delete(..)) | (SOp::Insert(..), SOp::Insert(..))));
    let changed = ops != input_ops;
    obs.nontrivial = s.len() >= 2 && d0 + i0 > 0 && changed;
    obs.class(name);
    obs.class_if(ins_before_del, "script: insert directly before delete");
    obs.class_if(split_eq, "script: split Equal run");
    obs.class_if(split_chg, "script: split delete/insert run");
    obs.class_if(changed, "adapter output differs from the input script");
    obs.class_if(similar::verif::swap::swaps() > 0, "compaction swap reached");
    obs.class_if(ops.len() < input_ops.len(), "ops merged");
    Verdict::Pass
}

pub fn strat(tier: Tier) -> BoxedStrategy<ScriptCase> {
    let l = tier.pick(10usize, 14);
    let pair = prop_oneof![
        3 => (1u32..4, vec(0u32..3, 0..=l), vec(0u32..3, 0..=l)).prop_map(|(k, a, b)| (
            a.into_iter().map(|x| x % k).collect::<Vec<u32>>(),
            b.into_iter().map(|x| x % k).collect::<Vec<u32>>()
        )),
        2 => seq_pair(l),
    ];
    let small = (pair, vec((prop_oneof![4 => Just(0u8), 2 => Just(1u8), 2 => Just(2u8), 1 => Just(3u8)], prop_oneof![9 => 1u8..4, 1 => 4u8..13]), 0..=24), 0u8..5, prop_oneof![2 => Just((vec![], vec![])), 1 => (vec(0u32..3, 0..=4), vec(0u32..3, 0..=4))]).prop_map(|((old, new), choices, stack, (po, pn))| {
        let script = build_script(&old, &new, &choices);
        ScriptCase { old, new, script, stack, base: (0, 0) }.with_base(po, pn)
    });
    // long runs: equal() calls of hundreds of items next to edits that repeat the run's items
    let long = (1usize..3, 100usize..400, vec((any::<u16>(), 0u8..3, 1u8..4), 1..=4), vec((prop_oneof![6 => Just(0u8), 1 => Just(1u8), 1 => Just(2u8)], prop_oneof![1 => 1u8..4, 3 => Just(255u8)]), 0..=10), 0u8..6).prop_map(|(p, n, edits, choices, stack)| {
        let old: Vec<u32> = (0..n).map(|i| (i % p) as u32).collect();
        let mut new = old.clone();
        for (at, kind, len) in edits {
            let l = new.len();
            if l == 0 {
                break;
            }
            let q = pos(at, l - 1);
            match kind {
                0 => {
                    for t in 0..len as usize {
                        new.insert(q, ((q + t) % p) as u32);
                    }
                }
                1 => {
                    let k = (len as usize).min(l - q);
                    new.drain(q..q + k);
                }
                _ => new.insert(q, 7),
            }
        }
        let script = build_script(&old, &new, &choices);
        ScriptCase { old, new, script, stack, base: (0, 0) }
    });
    prop_oneof![60 => small, 1 => long].boxed()
}

/// DFS over all valid scripts (with run splitting) for one pair
fn all_scripts(old: &[u32], new: &[u32], i: usize, j: usize, cur: &mut Vec<SOp>, f: &mut dyn FnMut(&[SOp]) -> bool) -> bool {
    let (n, m) = (old.len(), new.len());
    if i == n && j == m {
        return f(cur);
    }
    let mut l = 1;
    while i + l <= n && j + l <= m && old[i + l - 1] == new[j + l - 1] {
        cur.push(SOp::Equal(i, j, l));
        let ok = all_scripts(old, new, i + l, j + l, cur, f);
        cur.pop();
        if !ok {
            return false;
        }
        l += 1;
    }
    for l in 1..=(n - i) {
        cur.push(SOp::Delete(i, l, j));
        let ok = all_scripts(old, new, i + l, j, cur, f);
        cur.pop();
        if !ok {
            return false;
        }
    }
    for l in 1..=(m - j) {
        cur.push(SOp::Insert(i, j, l));
        let ok = all_scripts(old, new, i, j + l, cur, f);
        cur.pop();
        if !ok {
            return false;
        }
    }
    true
}

pub fn enum_scripts(tier: Tier, f: &mut dyn FnMut(ScriptCase) -> bool) {
    let seqs = all_seqs(2, 3);
    let _ = tier;
    for a in &seqs {
        for b in &seqs {
            let mut cur = vec![];
            let ok = all_scripts(a, b, 0, 0, &mut cur, &mut |s: &[SOp]| {
                for stack in 0..6u8 {
                    if !f(ScriptCase { old: a.clone(), new: b.clone(), script: s.to_vec(), stack, base: (0, 0) }) {
                        return false;
                    }
                }
                true
            });
            if !ok {
                return;
            }
        }
    }
}

fn enum_long_scripts(_tier: Tier, f: &mut dyn FnMut(ScriptCase) -> bool) {
    for k in (4090usize..=4099).chain(8186..=8195) {
        // old = e0 d0 e1 d1 ... (kept items 1000+i, deleted items 5) then 99 7; new = kept items, 99 99 7
        let mut old = vec![];
        let mut new = vec![];
        let mut script = vec![];
        for i in 0..k {
            if i % 2 == 0 {
                script.push(SOp::Equal(old.len(), new.len(), 1));
                old.push(1000 + i as u32);
                new.push(1000 + i as u32);
            } else {
                script.push(SOp::Delete(old.len(), 1, new.len()));
                old.push(5);
            }
        }
        script.push(SOp::Insert(old.len(), new.len(), 1));
        new.push(99);
        script.push(SOp::Equal(old.len(), new.len(), 2));
        old.extend([99, 7]);
        new.extend([99, 7]);
        for stack in [0u8, 2, 3] {
            if !f(ScriptCase { old: old.clone(), new: new.clone(), script: script.clone(), stack, base: (0, 0) }) {
                return;
            }
        }
    }
}

impl Prop for C10 {
    type Case = ScriptCase;
    const ID: &'static str = "C10";
    fn rule() -> String {
        "cases = (old, new, valid edit script as a history of equal/delete/insert hook calls with exact indices, adapter stack in {Compact, Replace, Compact<Replace>, Replace<Compact>, Compact<&mut Replace<&mut Capture>> (adapters that only borrow the hook behind them), Replace<Replace<Capture>>}); 1 case in ~60 uses periodic sequences of 100-400 items so that single equal() calls span hundreds of items next to edits that repeat the run's items; scripts are built by an interpreter from a generated list of choices (so run splitting, insert-before-delete and non-minimal scripts all occur); a third of the random scripts cover old[a..] / new[b..] behind 0-4 padding items (non-zero index bases), single calls are up to 12 items long and, in the enumeration stage, by a DFS over ALL valid scripts (with run splitting) of all pairs over {0,1} with lengths <= 3. Oracle: output is a valid script (walk + element equality), same number of deleted and of inserted items, nothing forwarded by Compact before finish, normal form through both adapters, exact carried indices through Replace alone (also when ONE Replace adapter is fed the script twice, finish after each), no panic. Non-trivial = script has >= 2 calls incl. a change and the adapter output differs from the input; distinct = distinct serialized case. The generator validates every script with the C01 stream validator before use (failure => exit 2).".into()
    }
    fn assumptions() -> Vec<String> {
        vec!["scripts are driven through DiffOp::apply_to_hook + finish as in the library's own Compact::finish".into()]
    }
    fn stages(tier: Tier) -> Vec<Stage<ScriptCase>> {
        vec![
            Stage {
                name: "enum-all-scripts",
                kind: StageKind::Enumerate {
                    scope: "all valid scripts (equal/delete/insert runs of every length, every interleaving) of all (old,new) over {0,1} with lengths <= 3 x 4 adapter stacks (incl. the reversed stacking Replace<Compact<_>>)".into(),
                    exhaustive: true,
                    gen: enum_scripts,
                },
            },
            Stage {
                name: "long-scripts",
                kind: StageKind::Enumerate {
                    scope: "scripts of k alternating equal(1) / delete(1) calls for k in 4090..=4099 and 8186..=8195 followed by an insertion that can slide one item down, through Compact, Compact<Replace> and Replace<Compact> (thousands of ops in one script, the hunk that must move sits right behind the 4096th / 8192nd op)".into(),
                    exhaustive: true,
                    gen: enum_long_scripts,
                },
            },
            Stage { name: "random", kind: StageKind::Random { strategy: strat, cases: tier.pick(1_500_000, 8_000_000) } },
        ]
    }
    fn check(case: &ScriptCase, obs: &mut Obs) -> Verdict {
        check_case(case, obs)
    }
}
