//! C13 — expanding ops into changes and slices is faithful.

use super::common::*;
use crate::core::*;
use crate::oracle::*;
use proptest::prelude::*;
use serde::{Deserialize, Serialize};
use similar::algorithms::Capture;
use similar::{Change, ChangeTag, DiffOp, DiffTag, DiffableStr, TextDiff};

pub struct C13;

#[derive(Clone, Debug, Serialize, Deserialize)]
pub enum Case {
    Op {
        op: SOp,
        /// iterator protocol script: b < 200 => next(), otherwise nth((b - 200) % 6)
        #[serde(default)]
        proto: Vec<u8>,
    },
    Text { case: TextCase, radius: usize },
}

const NEW_BASE: u32 = 1_000_000;

fn expect_changes(op: &DiffOp) -> Vec<(ChangeTag, Option<usize>, Option<usize>, u32)> {
    let mut v = vec![];
    match *op {
        DiffOp::Equal { old_index, new_index, len } => {
            for t in 0..len {
                v.push((ChangeTag::Equal, Some(old_index + t), Some(new_index + t), (old_index + t) as u32));
            }
        }
        DiffOp::Delete { old_index, old_len, .. } => {
            for t in 0..old_len {
                v.push((ChangeTag::Delete, Some(old_index + t), None, (old_index + t) as u32));
            }
        }
        DiffOp::Insert { new_index, new_len, .. } => {
            for t in 0..new_len {
                v.push((ChangeTag::Insert, None, Some(new_index + t), NEW_BASE + (new_index + t) as u32));
            }
        }
        DiffOp::Replace { old_index, old_len, new_index, new_len } => {
            for t in 0..old_len {
                v.push((ChangeTag::Delete, Some(old_index + t), None, (old_index + t) as u32));
            }
            for t in 0..new_len {
                v.push((ChangeTag::Insert, None, Some(new_index + t), NEW_BASE + (new_index + t) as u32));
            }
        }
    }
    v
}

fn check_op(sop: &SOp, proto: &[u8], obs: &mut Obs) -> Verdict {
    let op = sop.to_op();
    let (tag, o, n) = op.as_tag_tuple();
    // injectively valued sequences: any old/new or index mix-up changes a value
    let old: Vec<u32> = (0..(o.end + 2) as u32).collect();
    let new: Vec<u32> = (0..(n.end + 2) as u32).map(|j| NEW_BASE + j).collect();
    // as_tag_tuple
    let want_tuple = match *sop {
        SOp::Equal(a, b, l) => (DiffTag::Equal, a..a + l, b..b + l),
        SOp::Delete(a, l, b) => (DiffTag::Delete, a..a + l, b..b),
        SOp::Insert(a, b, l) => (DiffTag::Insert, a..a, b..b + l),
        SOp::Replace(a, al, b, bl) => (DiffTag::Replace, a..a + al, b..b + bl),
    };
    if (tag, o.clone(), n.clone()) != want_tuple || op.tag() != want_tuple.0 || op.old_range() != want_tuple.1 || op.new_range() != want_tuple.2 {
        return Verdict::Fail(format!("{:?}: as_tag_tuple/tag/old_range/new_range = {:?}, expected {:?}", op, (tag, o, n), want_tuple));
    }
    // item-wise expansion
    let got: Vec<(ChangeTag, Option<usize>, Option<usize>, u32)> = match guard(|| {
        op.iter_changes(&old[..], &new[..]).map(|c: Change<u32>| (c.tag(), c.old_index(), c.new_index(), c.value())).collect()
    }) {
        Ok(v) => v,
        Err(p) => return Verdict::Fail(format!("{:?}.iter_changes: {}", op, p)),
    };
    // the three accessors of a change's value agree
    match guard(|| {
        op.iter_changes(&old[..], &new[..]).all(|mut c: Change<u32>| {
            let v = c.value();
            *c.value_ref() == v && *c.value_mut() == v
        })
    }) {
        Ok(true) => {}
        Ok(false) => return Verdict::Fail(format!("{:?}: Change::value_ref()/value_mut() disagree with value()", op)),
        Err(p) => return Verdict::Fail(format!("{:?}.iter_changes: {}", op, p)),
    }
    let want = expect_changes(&op);
    if got != want {
        return Verdict::Fail(format!("{:?}.iter_changes = {:?}, expected {:?}", op, got, want));
    }
    // the iterator protocol: any mix of next()/nth() walks the same expansion; size_hint brackets
    // the remaining length; count/last/step_by agree
    let proto_result = guard(|| -> Result<(), String> {
        let mut it = op.iter_changes(&old[..], &new[..]);
        let mut cur = 0usize;
        for b in proto {
            let remaining = want.len().saturating_sub(cur);
            let (lo, hi) = it.size_hint();
            if lo > remaining || hi.map_or(false, |h| h < remaining) {
                return Err(format!("size_hint {:?} does not bracket the {} remaining changes", (lo, hi), remaining));
            }
            let (got, exp) = if *b < 200 {
                let g = it.next();
                let e = want.get(cur);
                cur += 1;
                (g, e)
            } else {
                let k = ((*b - 200) % 6) as usize;
                let g = it.nth(k);
                let e = want.get(cur + k);
                cur += k + 1;
                (g, e)
            };
            let got = got.map(|c: Change<u32>| (c.tag(), c.old_index(), c.new_index(), c.value()));
            if got.as_ref() != exp {
                return Err(format!("after protocol prefix {:?}: got {:?}, expected {:?}", proto, got, exp));
            }
            if exp.is_none() {
                break;
            }
        }
        if op.iter_changes(&old[..], &new[..]).count() != want.len() {
            return Err("count() disagrees with the expansion".into());
        }
        let last = op.iter_changes(&old[..], &new[..]).last().map(|c: Change<u32>| (c.tag(), c.old_index(), c.new_index(), c.value()));
        if last.as_ref() != want.last() {
            return Err(format!("last() = {:?}, expected {:?}", last, want.last()));
        }
        // consumers built on fold / try_fold / count / last after the iterator was advanced by hand
        let tup = |c: Change<u32>| (c.tag(), c.old_index(), c.new_index(), c.value());
        let j0 = proto.len() % (want.len() + 1);
        for j in [0usize, 1, 2, j0] {
            let j = j.min(want.len());
            let advanced = || {
                let mut it = op.iter_changes(&old[..], &new[..]);
                for _ in 0..j {
                    it.next();
                }
                it
            };
            let folded = advanced().fold(vec![], |mut v, c| {
                v.push(tup(c));
                v
            });
            if folded[..] != want[j..] {
                return Err(format!("after {} next() calls, fold() yields {:?}, expected {:?}", j, folded, &want[j..]));
            }
            let mut each = vec![];
            advanced().for_each(|c| each.push(tup(c)));
            if each[..] != want[j..] {
                return Err(format!("after {} next() calls, for_each() yields {:?}, expected {:?}", j, each, &want[j..]));
            }
            if advanced().count() != want.len() - j {
                return Err(format!("after {} next() calls, count() = {}, expected {}", j, advanced().count(), want.len() - j));
            }
            let l = advanced().last().map(tup);
            if l.as_ref() != want[j..].last() {
                return Err(format!("after {} next() calls, last() = {:?}, expected {:?}", j, l, want[j..].last()));
            }
            let mut it = advanced();
            let found = it.find(|c| c.tag() == ChangeTag::Insert).map(tup);
            let want_found = want[j..].iter().find(|w| w.0 == ChangeTag::Insert).cloned();
            if found != want_found {
                return Err(format!("after {} next() calls, find(Insert) = {:?}, expected {:?}", j, found, want_found));
            }
            let skipped: Vec<_> = advanced().skip(1).map(tup).collect();
            if skipped[..] != want[(j + 1).min(want.len())..] {
                return Err(format!("after {} next() calls, skip(1) yields {:?}", j, skipped));
            }
            let mut pk = advanced().peekable();
            let _ = pk.peek();
            let mut peeked = vec![];
            pk.for_each(|c| peeked.push(tup(c)));
            if peeked[..] != want[j..] {
                return Err(format!("after {} next() calls, a peeked Peekable drained with for_each yields {:?}, expected {:?}", j, peeked, &want[j..]));
            }
        }
        let stepped: Vec<_> = op.iter_changes(&old[..], &new[..]).step_by(2).map(|c: Change<u32>| (c.tag(), c.old_index(), c.new_index(), c.value())).collect();
        let want_stepped: Vec<_> = want.iter().step_by(2).cloned().collect();
        if stepped != want_stepped {
            return Err(format!("step_by(2) = {:?}, expected {:?}", stepped, want_stepped));
        }
        Ok(())
    });
    match proto_result {
        Ok(Ok(())) => {}
        Ok(Err(m)) => return Verdict::Fail(format!("{:?}.iter_changes: {}", op, m)),
        Err(p) => return Verdict::Fail(format!("{:?}.iter_changes protocol: {}", op, p)),
    }
    // slice-wise expansion
    let slices: Vec<(ChangeTag, Vec<u32>)> = match guard(|| op.iter_slices(&old[..], &new[..]).map(|(t, s): (ChangeTag, &[u32])| (t, s.to_vec())).collect()) {
        Ok(v) => v,
        Err(p) => return Verdict::Fail(format!("{:?}.iter_slices: {}", op, p)),
    };
    let want_n = if matches!(op, DiffOp::Replace { .. }) { 2 } else { 1 };
    if slices.len() != want_n {
        return Verdict::Fail(format!("{:?}.iter_slices yields {} slices, expected {}", op, slices.len(), want_n));
    }
    let flat: Vec<(ChangeTag, u32)> = slices.iter().flat_map(|(t, s)| s.iter().map(move |x| (*t, *x))).collect();
    let want_flat: Vec<(ChangeTag, u32)> = want.iter().map(|w| (w.0, w.3)).collect();
    if flat != want_flat {
        return Verdict::Fail(format!("{:?}.iter_slices items {:?} != item-wise expansion {:?}", op, flat, want_flat));
    }
    let want_tags: Vec<ChangeTag> = match op {
        DiffOp::Equal { .. } => vec![ChangeTag::Equal],
        DiffOp::Delete { .. } => vec![ChangeTag::Delete],
        DiffOp::Insert { .. } => vec![ChangeTag::Insert],
        DiffOp::Replace { .. } => vec![ChangeTag::Delete, ChangeTag::Insert],
    };
    if slices.iter().map(|s| s.0).collect::<Vec<_>>() != want_tags {
        return Verdict::Fail(format!("{:?}.iter_slices tags {:?}", op, slices));
    }
    // re-applying to a capturing hook reproduces the op
    let mut cap = Capture::new();
    op.apply_to_hook(&mut cap).unwrap();
    if cap.ops() != [op] {
        return Verdict::Fail(format!("{:?}.apply_to_hook(Capture) captured {:?}", op, cap.ops()));
    }
    // ... and the hook call itself, seen by the harness' own recording hook (with and without a
    // replace override)
    {
        let mut rec = Recorder::new();
        op.apply_to_hook(&mut rec).unwrap();
        let want_ev = match *sop {
            SOp::Equal(a, b, l) => Ev::Equal(a, b, l),
            SOp::Delete(a, l, b) => Ev::Delete(a, l, b),
            SOp::Insert(a, b, l) => Ev::Insert(a, b, l),
            SOp::Replace(a, al, b, bl) => Ev::Replace(a, al, b, bl),
        };
        if rec.events != [want_ev] {
            return Verdict::Fail(format!("{:?}.apply_to_hook called {:?} on the hook, expected {:?}", op, rec.events, want_ev));
        }
        let mut rec2 = RecorderNoReplace(Recorder::new());
        op.apply_to_hook(&mut rec2).unwrap();
        let want2 = match want_ev {
            Ev::Replace(a, al, b, bl) => vec![Ev::Delete(a, al, b), Ev::Insert(a, b, bl)],
            e => vec![e],
        };
        if rec2.0.events != want2 {
            return Verdict::Fail(format!("{:?}.apply_to_hook on a hook without replace override: {:?}, expected {:?}", op, rec2.0.events, want2));
        }
    }
    // a failing hook: the replay stops at the failing call (default replace = delete, then insert)
    {
        let mut f0 = RecorderNoReplace(Recorder::failing(0));
        let r = op.apply_to_hook(&mut f0);
        if r != Err(0) || f0.0.events.len() != 1 {
            return Verdict::Fail(format!("{:?}.apply_to_hook on a hook that fails at its first call: result {:?}, the hook saw {:?}", op, r, f0.0.events));
        }
    }
    // a hook handed over BY VALUE to generic code is often a `&mut` to the real hook
    {
        fn replay<D: similar::algorithms::DiffHook>(op: &DiffOp, mut d: D) -> Result<(), D::Error> {
            op.apply_to_hook(&mut d)
        }
        let mut cap2 = Capture::new();
        replay(&op, &mut cap2).unwrap();
        let mut rec3 = Recorder::new();
        replay(&op, &mut rec3).unwrap();
        let mut inner = &mut rec3;
        replay(&op, &mut inner).unwrap();
        if cap2.ops() != [op] || rec3.events.len() != 2 || rec3.events[0] != rec3.events[1] || matches!(op, DiffOp::Replace { .. }) != matches!(rec3.events[0], Ev::Replace(..)) {
            return Verdict::Fail(format!("{:?} replayed into `&mut hook` handed over by value: Capture got {:?}, the recording hook {:?}", op, cap2.ops(), rec3.events));
        }
    }
    // ... and through the forwarding wrappers of the crate: NoFinishHook (by value and around a
    // `&mut`) and Replace pass a single op on unchanged
    {
        use similar::algorithms::{DiffHook, NoFinishHook, Replace};
        let mut nf = NoFinishHook::new(Capture::new());
        op.apply_to_hook(&mut nf).unwrap();
        let got = nf.into_inner().into_ops();
        let mut cap = Capture::new();
        {
            let mut nf2 = NoFinishHook::new(&mut cap);
            op.apply_to_hook(&mut nf2).unwrap();
        }
        if got != [op] || cap.ops() != [op] {
            return Verdict::Fail(format!("{:?} replayed through NoFinishHook: NoFinishHook<Capture> got {:?}, NoFinishHook<&mut Capture> {:?}", op, got, cap.ops()));
        }
        if ol_nl_nonzero(&op) {
            let mut rp = Replace::new(Capture::new());
            op.apply_to_hook(&mut rp).unwrap();
            rp.finish().unwrap();
            let got = rp.into_inner().into_ops();
            if got != [op] {
                return Verdict::Fail(format!("{:?} replayed through Replace<Capture> (then finish): {:?}", op, got));
            }
        }
    }
    // slice-wise expansion over STRING sequences (Index<Range<usize>> for str): only the side(s) the op
    // consumes are sliced, so the position carried for the other side may fall anywhere - also inside a
    // multi-byte character of that other string
    {
        let so = "abcdefghijklmnopqrstuvwxyz";
        let sn = "\u{e9}\u{e9}\u{e9}\u{e9}\u{e9}\u{e9}\u{e9}\u{e9}\u{e9}\u{e9}\u{e9}\u{e9}\u{e9}";
        let (_, o, n) = op.as_tag_tuple();
        if o.end <= so.len() && n.start <= sn.len() {
            match op {
                DiffOp::Delete { .. } => match guard(|| op.iter_slices(so, sn).map(|(t, x): (ChangeTag, &str)| (t, x.to_string())).collect::<Vec<_>>()) {
                    Ok(v) if v == vec![(ChangeTag::Delete, so[o.clone()].to_string())] => {}
                    Ok(v) => return Verdict::Fail(format!("{:?}.iter_slices over two strs yields {:?}", op, v)),
                    Err(p) => return Verdict::Fail(format!("{:?}.iter_slices over two strs (the carried new index {} is not used for slicing): {}", op, n.start, p)),
                },
                DiffOp::Insert { .. } if n.end <= so.len() && o.start <= sn.len() => match guard(|| op.iter_slices(sn, so).map(|(t, x): (ChangeTag, &str)| (t, x.to_string())).collect::<Vec<_>>()) {
                    Ok(v) if v == vec![(ChangeTag::Insert, so[n.clone()].to_string())] => {}
                    Ok(v) => return Verdict::Fail(format!("{:?}.iter_slices over two strs yields {:?}", op, v)),
                    Err(p) => return Verdict::Fail(format!("{:?}.iter_slices over two strs (the carried old index {} is not used for slicing): {}", op, o.start, p)),
                },
                _ => {}
            }
        }
    }
    let (ol, nl) = (want_tuple.1.len(), want_tuple.2.len());
    obs.nontrivial = want_tuple.1.start != want_tuple.2.start && (!matches!(op, DiffOp::Replace { .. }) || ol != nl);
    obs.class(match op {
        DiffOp::Equal { .. } => "Equal",
        DiffOp::Delete { .. } => "Delete",
        DiffOp::Insert { .. } => "Insert",
        DiffOp::Replace { .. } => "Replace",
    });
    obs.class_if(ol == 0 && nl == 0, "zero-length op");
    Verdict::Pass
}

/// Replace drops nothing of an op whose consumed sides are non-empty
fn ol_nl_nonzero(op: &DiffOp) -> bool {
    match *op {
        DiffOp::Equal { len, .. } => len > 0,
        DiffOp::Delete { old_len, .. } => old_len > 0,
        DiffOp::Insert { new_len, .. } => new_len > 0,
        DiffOp::Replace { old_len, new_len, .. } => old_len > 0 && new_len > 0,
    }
}

type Flat<'a, T> = Vec<(ChangeTag, Option<usize>, Option<usize>, &'a T)>;

fn flat<'a, T: ?Sized>(it: impl Iterator<Item = Change<&'a T>>) -> Flat<'a, T> {
    it.map(|c| (c.tag(), c.old_index(), c.new_index(), c.value())).collect()
}

fn judge_text<'a, T: DiffableStr + ?Sized + std::fmt::Debug + 'a>(d: &'a TextDiff<'a, 'a, 'a, T>, radius: usize, obs: &mut Obs) -> Result<(), String> {
    let all = flat(d.iter_all_changes());
    let mut concat: Flat<T> = vec![];
    for op in d.ops() {
        let per_op = flat(d.iter_changes(op));
        let direct = flat(op.iter_changes(d.old_slices(), d.new_slices()));
        if per_op != direct {
            return Err(format!("TextDiff::iter_changes({:?}) != DiffOp::iter_changes over the token slices", op));
        }
        // values are the tokens at the reported indices
        for (tag, oi, ni, v) in &per_op {
            let want: &T = match tag {
                ChangeTag::Insert => d.new_slices()[ni.unwrap()],
                _ => d.old_slices()[oi.unwrap()],
            };
            if want != *v {
                return Err(format!("change {:?} {:?}/{:?} carries {:?}, the token at that index is {:?}", tag, oi, ni, v, want));
            }
        }
        concat.extend(per_op);
    }
    if all != concat {
        return Err(format!("iter_all_changes {:?} != concatenation of per-op expansions {:?}", all, concat));
    }
    // ops that do not come from this diff (hand-built, or computed on a normalised copy of the text):
    // TextDiff::iter_changes expands any in-bounds op exactly as DiffOp::iter_changes does - an Equal
    // op yields Equal changes carrying the old value whatever the new side holds
    {
        let (no, nn) = (d.old_slices().len(), d.new_slices().len());
        let m = no.min(nn);
        let foreign = [
            DiffOp::Equal { old_index: 0, new_index: 0, len: m },
            DiffOp::Equal { old_index: no - m, new_index: nn - m, len: m },
            DiffOp::Equal { old_index: no - m.min(1), new_index: 0, len: m.min(1) },
            DiffOp::Replace { old_index: 0, old_len: no, new_index: 0, new_len: nn },
            DiffOp::Delete { old_index: 0, old_len: no, new_index: nn },
            DiffOp::Insert { old_index: no, new_index: 0, new_len: nn },
        ];
        for op in &foreign {
            let via_diff = flat(d.iter_changes(op));
            let direct = flat(op.iter_changes(d.old_slices(), d.new_slices()));
            if via_diff != direct {
                return Err(format!("TextDiff::iter_changes({:?}) (an op that is not one of the diff's own) {:?} != DiffOp::iter_changes over the token slices {:?}", op, via_diff, direct));
            }
        }
    }
    let tup = |c: Change<&'a T>| (c.tag(), c.old_index(), c.new_index(), c.value());
    consumers_agree("iter_all_changes", || d.iter_all_changes(), tup, &concat, radius)?;
    let mut ud = d.unified_diff();
    ud.context_radius(radius);
    let mut hunks = 0;
    for h in ud.iter_hunks() {
        hunks += 1;
        let got = flat(h.iter_changes());
        let mut want: Flat<T> = vec![];
        for op in h.ops() {
            want.extend(flat(op.iter_changes(d.old_slices(), d.new_slices())));
        }
        if got != want {
            return Err(format!("UnifiedDiffHunk::iter_changes {:?} != concatenation over hunk.ops() {:?}", got, want));
        }
        if hunks <= 3 {
            let h2 = similar::udiff::UnifiedDiffHunk::new(h.ops().to_vec(), d, true);
            consumers_agree("UnifiedDiffHunk::iter_changes", || h2.iter_changes(), |c| (c.tag(), c.old_index(), c.new_index(), c.value()), &want, hunks)?;
        }
    }
    // the hunk iterator itself under every consumer (reference: a plain next() walk)
    {
        let mut walk = vec![];
        let mut it = ud.iter_hunks();
        while let Some(h) = it.next() {
            walk.push((h.ops().to_vec(), h.to_string()));
        }
        consumers_agree("UnifiedDiff::iter_hunks", || ud.iter_hunks(), |h| (h.ops().to_vec(), h.to_string()), &walk, radius)?;
    }
    // hunks built by hand from arbitrary op lists (only the changes; reversed order)
    let only_changes: Vec<similar::DiffOp> = d.ops().iter().filter(|o| !matches!(o, DiffOp::Equal { .. })).cloned().collect();
    let mut reversed: Vec<similar::DiffOp> = d.ops().to_vec();
    reversed.reverse();
    // op lists containing ops that cover nothing: the zero-length Equal ops that grouping with
    // radius 0 leaves at group edges (all groups concatenated), and zero-length ops of every kind
    // interleaved with the real ones
    let radius0: Vec<similar::DiffOp> = d.grouped_ops(0).concat();
    let mut with_empties: Vec<similar::DiffOp> = vec![];
    for (i, op) in d.ops().iter().enumerate() {
        let (o, n) = (op.old_range().start, op.new_range().start);
        match i % 4 {
            0 => with_empties.push(DiffOp::Equal { old_index: o, new_index: n, len: 0 }),
            1 => with_empties.push(DiffOp::Delete { old_index: o, old_len: 0, new_index: n }),
            2 => with_empties.push(DiffOp::Insert { old_index: o, new_index: n, new_len: 0 }),
            _ => {}
        }
        with_empties.push(*op);
    }
    with_empties.push(DiffOp::Equal { old_index: d.old_slices().len(), new_index: d.new_slices().len(), len: 0 });
    // every Equal op turned into a Replace over the same ranges (a Replace whose two sides hold equal
    // items): its expansion is all its deletes followed by all its inserts, like any Replace
    let eq_as_replace: Vec<similar::DiffOp> = d
        .ops()
        .iter()
        .map(|op| match *op {
            DiffOp::Equal { old_index, new_index, len } => DiffOp::Replace { old_index, old_len: len, new_index, new_len: len },
            o => o,
        })
        .collect();
    // the groups of radius 1 and 2 concatenated (same-tag neighbours with a gap between them), and
    // the RAW script of the diff (no Compact / Replace: inserts before deletes, unmerged runs)
    let radius1: Vec<similar::DiffOp> = d.grouped_ops(1).concat();
    let radius2: Vec<similar::DiffOp> = d.grouped_ops(2).concat();
    let raw: Vec<similar::DiffOp> = {
        let mut cap = Capture::new();
        similar::algorithms::diff_slices(d.algorithm(), &mut cap, d.old_slices(), d.new_slices()).unwrap();
        cap.into_ops()
    };
    for ops in [only_changes, reversed, radius0, with_empties, eq_as_replace, radius1, radius2, raw] {
        let h = similar::udiff::UnifiedDiffHunk::new(ops.clone(), d, true);
        let got = flat(h.iter_changes());
        let mut want: Flat<T> = vec![];
        for op in &ops {
            want.extend(flat(op.iter_changes(d.old_slices(), d.new_slices())));
        }
        if got != want {
            return Err(format!("UnifiedDiffHunk::new({:?}).iter_changes() {:?} != concatenation of per-op expansions {:?}", ops, got, want));
        }
        if ops.len() <= 12 {
            consumers_agree("UnifiedDiffHunk::new(..).iter_changes()", || h.iter_changes(), |c| (c.tag(), c.old_index(), c.new_index(), c.value()), &want, ops.len())?;
        }
    }
    // replaying the whole op list reproduces it: into a Capture, and through the Replace adapter
    // (a list in normal form passes through it unchanged)
    {
        let mut cap = Capture::new();
        for op in d.ops() {
            op.apply_to_hook(&mut cap).unwrap();
        }
        if cap.ops() != d.ops() {
            return Err(format!("replaying ops() through apply_to_hook into a Capture gives {:?}, the ops are {:?}", cap.ops(), d.ops()));
        }
        let mut rep = similar::algorithms::Replace::new(Capture::new());
        for op in d.ops() {
            op.apply_to_hook(&mut rep).unwrap();
        }
        similar::algorithms::DiffHook::finish(&mut rep).unwrap();
        let got = rep.into_inner().into_ops();
        if got != d.ops() {
            return Err(format!("replaying ops() through apply_to_hook into Replace<Capture> gives {:?}, the ops are {:?}", got, d.ops()));
        }
        // the same list with every Equal op of two or more items cut in two (as a list assembled from
        // separately diffed chunks has them): Replace joins the pieces again, also right behind a
        // Replace op that it passes through
        let mut split: Vec<DiffOp> = vec![];
        for op in d.ops() {
            match *op {
                DiffOp::Equal { old_index, new_index, len } if len >= 2 => {
                    let h = len / 2;
                    split.push(DiffOp::Equal { old_index, new_index, len: h });
                    split.push(DiffOp::Equal { old_index: old_index + h, new_index: new_index + h, len: len - h });
                }
                o => split.push(o),
            }
        }
        let mut rep = similar::algorithms::Replace::new(Capture::new());
        for op in &split {
            op.apply_to_hook(&mut rep).unwrap();
        }
        similar::algorithms::DiffHook::finish(&mut rep).unwrap();
        let got = rep.into_inner().into_ops();
        if got != d.ops() {
            return Err(format!("replaying the ops with every Equal run cut in two through Replace<Capture> gives {:?}, the ops are {:?}", got, d.ops()));
        }
    }
    obs.nontrivial = d.ops().len() >= 2;
    obs.class_if(hunks >= 1, "text: hunks iterated");
    Ok(())
}

fn check_text(c: &TextCase, radius: usize, obs: &mut Obs) -> Verdict {
    let cfg = config(c.alg);
    obs.class("whole-diff iteration (TextDiff / UnifiedDiffHunk)");
    let r = if c.use_bytes() {
        guard(|| {
            let d = diff_bytes(&cfg, c.tok, &c.old.0, &c.new.0);
            exercise(&d, c.opt);
            judge_text(&d, radius, obs)
        })
    } else {
        guard(|| {
            let d = diff_str(&cfg, c.tok, c.old.as_str().unwrap(), c.new.as_str().unwrap());
            exercise(&d, c.opt);
            judge_text(&d, radius, obs)
        })
    };
    match r {
        Ok(Ok(())) => Verdict::Pass,
        Ok(Err(m)) => Verdict::Fail(m),
        Err(p) => Verdict::Fail(format!("text iteration: {}", p)),
    }
}

fn len() -> impl Strategy<Value = usize> {
    prop_oneof![1 => Just(0usize), 8 => 1usize..7, 1 => 7usize..40]
}

fn sop() -> impl Strategy<Value = SOp> {
    let idx = || prop_oneof![2 => Just(0usize), 6 => 0usize..20, 1 => 20usize..500];
    prop_oneof![
        (idx(), idx(), len()).prop_map(|(a, b, l)| SOp::Equal(a, b, l)),
        (idx(), len(), idx()).prop_map(|(a, l, b)| SOp::Delete(a, l, b)),
        (idx(), idx(), len()).prop_map(|(a, b, l)| SOp::Insert(a, b, l)),
        (idx(), len(), idx(), len()).prop_map(|(a, al, b, bl)| SOp::Replace(a, al, b, bl)),
    ]
}

fn strat(_tier: Tier) -> BoxedStrategy<Case> {
    prop_oneof![
        5 => (sop(), proptest::collection::vec(prop_oneof![3 => 0u8..200, 1 => 200u8..=255], 0..=10)).prop_map(|(op, proto)| Case::Op { op, proto }),
        1 => (prop_oneof![4 => text_case_mix(120), 4 => line_case(30, true), 1 => big_line_case(130)], 0usize..4).prop_map(|(case, radius)| Case::Text { case, radius }),
    ]
    .boxed()
}

fn enum_ops(_tier: Tier, f: &mut dyn FnMut(Case) -> bool) {
    for a in 0..4usize {
        for b in 0..4usize {
            for l in 0..4usize {
                for m in 0..4usize {
                    for op in [SOp::Equal(a, b, l), SOp::Delete(a, l, b), SOp::Insert(a, b, l), SOp::Replace(a, l, b, m)] {
                        if m > 0 && !matches!(op, SOp::Replace(..)) {
                            continue;
                        }
                        if !f(Case::Op { op, proto: vec![0, 201, 0, 203, 0] }) {
                            return;
                        }
                    }
                }
            }
        }
    }
}

impl Prop for C13 {
    type Case = Case;
    const ID: &'static str = "C13";
    fn rule() -> String {
        "cases = Op(one op of any of the four kinds with arbitrary offsets/lengths, expanded against injectively valued sequences old[i]=i, new[j]=10^6+j so that any old/new or index mix-up changes a value) | Text(text diff, radius: whole-diff iteration and hunk iteration); enumeration of all ops with offsets and lengths in 0..4. Oracle: exact expected (tag, old_index, new_index, value) vector per kind; iter_slices items == item-wise expansion with 1 (Replace: 2) slices; a generated iterator-protocol script (mix of next()/nth(k)) walks the same expansion, size_hint brackets the remainder, count/last/step_by agree, and after 0, 1, 2 or j next() calls the fold-based consumers (fold, for_each, count, last, find, skip, a peeked Peekable) yield exactly the rest; TextDiff::iter_changes == DiffOp::iter_changes also for in-bounds ops that are not the diff's own (an Equal op over unequal items, whole-side Replace / Delete / Insert); iter_all_changes / UnifiedDiffHunk::iter_changes (hunks from iter_hunks and hunks built by hand from the changes only, from the reversed op list, from all radius-0 groups concatenated (zero-length Equal ops in the middle) from the op list interleaved with zero-length ops of every kind, from the op list with every Equal turned into a Replace over the same ranges, from the groups of radius 1 and 2 concatenated, and from the raw script of the algorithm without Compact/Replace) == concatenation of per-op expansions and every value is the token at its index; apply_to_hook(Capture) reproduces the op, also through NoFinishHook<Capture>, NoFinishHook<&mut Capture> and Replace<Capture>; iter_slices over two strs slices only the consumed side (the carried index may fall inside a multi-byte character of the other string); as_tag_tuple ranges. Non-trivial = old_index != new_index and (Replace) old_len != new_len, or a text diff with >= 2 ops; distinct = distinct serialized case.".into()
    }
    fn assumptions() -> Vec<String> {
        vec!["sequences are long enough for the op (in-bounds by construction)".into()]
    }
    fn stages(tier: Tier) -> Vec<Stage<Case>> {
        vec![
            Stage {
                name: "enum-ops",
                kind: StageKind::Enumerate { scope: "all ops of the four kinds with offsets and lengths in 0..4".into(), exhaustive: true, gen: enum_ops },
            },
            Stage { name: "random", kind: StageKind::Random { strategy: strat, cases: tier.pick(1_500_000, 8_000_000) } },
        ]
    }
    fn check(case: &Case, obs: &mut Obs) -> Verdict {
        match case {
            Case::Op { op, proto } => check_op(op, proto, obs),
            Case::Text { case, radius } => check_text(case, *radius, obs),
        }
    }
}
