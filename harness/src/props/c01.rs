//! C01 — every algorithm emits a sound, gap-free, index-exact edit script.

use crate::core::*;
use crate::gen::*;
use crate::oracle::items;
use crate::oracle::*;
use proptest::prelude::*;
use similar::algorithms::{self, IdentifyDistinct};

pub struct C01;

fn run_slices(c: &SeqCase) -> Vec<Ev> {
    let mut r = Recorder::new();
    algorithms::diff(alg_of(c.alg), &mut r, &c.old[..], c.old_r(), &c.new[..], c.new_r()).unwrap();
    r.events
}

fn run_strict_module(c: &SeqCase) -> Vec<Ev> {
    let o = Strict { data: &c.old, lo: c.or.0, hi: c.or.1 };
    let n = Strict { data: &c.new, lo: c.nr.0, hi: c.nr.1 };
    let mut r = Recorder::new();
    match c.alg % 3 {
        0 => algorithms::myers::diff(&mut r, &o, c.old_r(), &n, c.new_r()).unwrap(),
        1 => algorithms::patience::diff(&mut r, &o, c.old_r(), &n, c.new_r()).unwrap(),
        _ => algorithms::lcs::diff(&mut r, &o, c.old_r(), &n, c.new_r()).unwrap(),
    }
    r.events
}

fn run_offset(c: &SeqCase) -> Vec<Ev> {
    let h = IdentifyDistinct::<u32>::new(&c.old[..], c.old_r(), &c.new[..], c.new_r());
    let mut r = Recorder::new();
    algorithms::diff(alg_of(c.alg), &mut r, h.old_lookup(), h.old_range(), h.new_lookup(), h.new_range()).unwrap();
    r.events
}

fn run_extracted(c: &SeqCase) -> Vec<Ev> {
    let mut r = Recorder::new();
    algorithms::diff_slices(alg_of(c.alg), &mut r, c.old_slice(), c.new_slice()).unwrap();
    r.events
}

/// mode 9: a fixed large case — judged by the main run only (validity + replay)
const MODE_LARGE: u8 = 9;

/// both sides are the very same buffer (aliasing), with independent ranges
fn check_alias(c: &SeqCase, obs: &mut Obs) -> Verdict {
    let buf = &c.old;
    let nr = (c.nr.0.min(buf.len()), c.nr.1.min(buf.len()));
    let nr = (nr.0.min(nr.1), nr.1);
    let alg = alg_of(c.alg);
    let same = guard(|| {
        let mut r = Recorder::new();
        algorithms::diff(alg, &mut r, &buf[..], c.old_r(), &buf[..], nr.0..nr.1).unwrap();
        r.events
    });
    let copy = buf.clone();
    let sep = guard(|| {
        let mut r = Recorder::new();
        algorithms::diff(alg, &mut r, &buf[..], c.old_r(), &copy[..], nr.0..nr.1).unwrap();
        r.events
    });
    let (same, sep) = match (same, sep) {
        (Ok(a), Ok(b)) => (a, b),
        (Err(p), _) | (_, Err(p)) => return Verdict::Fail(format!("diffing one buffer against itself: {}", p)),
    };
    if let Err(m) = validate_raw(&same, c.old_r(), nr.0..nr.1, &|i, j| buf[i] == buf[j]) {
        return Verdict::Fail(format!("{}: old and new are the same buffer {:?} with ranges {:?} / {:?}: stream {:?}: {}", alg_name(c.alg), buf, c.or, nr, same, m));
    }
    if same != sep {
        return Verdict::Fail(format!("{}: diffing a buffer against itself gives {:?}, against an equal copy {:?}", alg_name(c.alg), same, sep));
    }
    // two DIFFERENT sequences at one address: the Vec and a transparent view that indexes it back to
    // front (same address, same size, other items)
    {
        let view = Reversed(buf.clone());
        let n = view.0.len();
        let rev = guard(|| {
            let mut r = Recorder::new();
            algorithms::diff(alg, &mut r, &view.0, 0..n, &view, 0..n).unwrap();
            r.events
        });
        match rev {
            Ok(e) => {
                if let Err(m) = validate_raw(&e, 0..n, 0..n, &|i, j| view.0[i] == view.0[n - 1 - j]) {
                    return Verdict::Fail(format!("{}: a Vec {:?} diffed against a transparent back-to-front view of itself (same address): stream {:?}: {}", alg_name(c.alg), view.0, e, m));
                }
            }
            Err(p) => return Verdict::Fail(format!("diffing a Vec against a back-to-front view of itself: {}", p)),
        }
    }
    obs.executions = 3;
    obs.nontrivial = c.or != nr && c.or.1 > c.or.0 && nr.1 > nr.0;
    obs.class("old and new alias the same buffer");
    Verdict::Pass
}

pub fn check_case(c: &SeqCase, obs: &mut Obs) -> Verdict {
    if c.mode == 1 {
        return check_alias(c, obs);
    }
    let (old, new) = (&c.old, &c.new);
    let eq = |i: usize, j: usize| old[i] == new[j];
    obs.executions = 7;

    let ev = match guard(|| run_slices(c)) {
        Ok(e) => e,
        Err(p) => return Verdict::Fail(format!("algorithms::diff: {}", p)),
    };
    if let Err(m) = validate_raw(&ev, c.old_r(), c.new_r(), &eq) {
        return Verdict::Fail(format!("algorithms::diff({}) stream {:?}: {}", alg_name(c.alg), ev, m));
    }
    match replay_events(&ev, old, new, c.old_r()) {
        Some(out) if out == c.new_slice() => {}
        other => {
            return Verdict::Fail(format!(
                "replaying the callbacks on the old range gives {:?}, expected {:?} (stream {:?})",
                other,
                c.new_slice(),
                ev
            ))
        }
    }
    if c.mode == MODE_LARGE {
        let (d, i, e) = events_cost(&ev);
        obs.executions = 1;
        obs.nontrivial = e > 0 && d + i > 0;
        obs.class("fixed large case");
        obs.class(alg_name(c.alg));
        return Verdict::Pass;
    }
    // the deadline-taking twins of the entry points, called without a deadline
    {
        let twins = guard(|| {
            let mut a = Recorder::new();
            algorithms::diff_deadline(alg_of(c.alg), &mut a, &c.old[..], c.old_r(), &c.new[..], c.new_r(), None).unwrap();
            let mut b = Recorder::new();
            algorithms::diff_slices_deadline(alg_of(c.alg), &mut b, c.old_slice(), c.new_slice(), None).unwrap();
            let mut m = Recorder::new();
            match c.alg % 3 {
                0 => algorithms::myers::diff_deadline(&mut m, &c.old[..], c.old_r(), &c.new[..], c.new_r(), None).unwrap(),
                1 => algorithms::patience::diff_deadline(&mut m, &c.old[..], c.old_r(), &c.new[..], c.new_r(), None).unwrap(),
                _ => algorithms::lcs::diff_deadline(&mut m, &c.old[..], c.old_r(), &c.new[..], c.new_r(), None).unwrap(),
            }
            (a.events, shift_events(&b.events, c.or.0, c.nr.0), m.events)
        });
        match twins {
            Ok((a, b, m)) => {
                if a != ev || b != ev || m != ev {
                    return Verdict::Fail(format!("{}: diff_deadline(None) {:?} / diff_slices_deadline(None) {:?} / per-module diff_deadline(None) {:?} differ from algorithms::diff {:?}", alg_name(c.alg), a, b, m, ev));
                }
            }
            Err(p) => return Verdict::Fail(format!("{}: the deadline-taking entry points without a deadline: {}", alg_name(c.alg), p)),
        }
    }
    // caller-defined lookups whose index space starts at a huge base (around 2^32, 2^63): all reported
    // indices are the caller's absolute positions
    if c.old.len() + c.new.len() <= 64 {
        let sel = c.old.len() * 3 + c.new.len();
        let (bo, bn) = [(1usize << 32, (1usize << 32) - 3), ((1usize << 32) - 2, 7usize), (usize::MAX / 2 - 40, (1usize << 33) + 1), (5, 1usize << 40)][sel % 4];
        let (lo, ln) = (Based { data: c.old_slice(), base: bo }, Based { data: c.new_slice(), base: bn });
        let (n, m) = (c.old_slice().len(), c.new_slice().len());
        match guard(|| {
            let mut r = Recorder::new();
            algorithms::diff(alg_of(c.alg), &mut r, &lo, bo..bo + n, &ln, bn..bn + m).unwrap();
            r.events
        }) {
            Ok(e) => {
                let want: Vec<Ev> = ev
                    .iter()
                    .map(|x| match *x {
                        Ev::Equal(o, nn, l) => Ev::Equal(o - c.or.0 + bo, nn - c.nr.0 + bn, l),
                        Ev::Delete(o, l, nn) => Ev::Delete(o - c.or.0 + bo, l, nn - c.nr.0 + bn),
                        Ev::Insert(o, nn, l) => Ev::Insert(o - c.or.0 + bo, nn - c.nr.0 + bn, l),
                        Ev::Replace(o, ol, nn, nl) => Ev::Replace(o - c.or.0 + bo, ol, nn - c.nr.0 + bn, nl),
                        Ev::Finish => Ev::Finish,
                    })
                    .collect();
                if e != want {
                    return Verdict::Fail(format!("{}: the ranges as windows of caller-defined lookups based at {} / {} give {:?}, expected the slice diff shifted to those bases {:?}", alg_name(c.alg), bo, bn, e, want));
                }
            }
            Err(p) => return Verdict::Fail(format!("{} over lookups based at {} / {}: {}", alg_name(c.alg), bo, bn, p)),
        }
    }
    // other item types: owned strings (non-Copy), and different types on the two sides
    if c.old.len() + c.new.len() <= 64 {
        let os: Vec<String> = c.old.iter().map(|x| format!("item {}", x)).collect();
        let ns: Vec<String> = c.new.iter().map(|x| format!("item {}", x)).collect();
        let oa: Vec<u64> = c.old.iter().map(|x| *x as u64).collect();
        let na: Vec<items::Id32> = c.new.iter().map(|x| items::Id32(*x)).collect();
        match guard(|| {
            let mut a = Recorder::new();
            algorithms::diff(alg_of(c.alg), &mut a, &os[..], c.old_r(), &ns[..], c.new_r()).unwrap();
            let mut b = Recorder::new();
            algorithms::diff(alg_of(c.alg), &mut b, &oa[..], c.old_r(), &na[..], c.new_r()).unwrap();
            (a.events, b.events)
        }) {
            Ok((a, b)) => {
                if a != ev || b != ev {
                    return Verdict::Fail(format!("{}: String items give {:?}, u64 / Id32 items (different types per side) give {:?}, u32 items give {:?}", alg_name(c.alg), a, b, ev));
                }
            }
            Err(p) => return Verdict::Fail(format!("{} over String / mixed item types: {}", alg_name(c.alg), p)),
        }
    }
    // a re-entrant hook: every delete/insert callback runs a small nested diff with the same
    // algorithm; the outer stream must be the same
    if c.old.len() + c.new.len() <= 64 {
        match guard(|| {
            let mut h = NestingRecorder::new(alg_of(c.alg));
            algorithms::diff(alg_of(c.alg), &mut h, &c.old[..], c.old_r(), &c.new[..], c.new_r()).unwrap();
            (h.rec.events, h.nested_runs)
        }) {
            Ok((e, runs)) => {
                if e != ev {
                    return Verdict::Fail(format!("{}: with a hook that runs nested diffs from inside its delete/insert callbacks the stream is {:?}, with a plain hook {:?}", alg_name(c.alg), e, ev));
                }
                obs.class_if(runs > 0, "re-entrant hook (nested diffs inside callbacks)");
            }
            Err(p) => return Verdict::Fail(format!("{} with a re-entrant hook: {}", alg_name(c.alg), p)),
        }
    }
    // the same diff through a range-checked lookup and the per-module entry point
    match guard(|| run_strict_module(c)) {
        Ok(e) => {
            if e != ev {
                return Verdict::Fail(format!("{}::diff over a strict lookup gives {:?}, algorithms::diff gives {:?}", alg_name(c.alg), e, ev));
            }
        }
        Err(p) => return Verdict::Fail(format!("{}::diff over a range-checked lookup: {}", alg_name(c.alg), p)),
    }
    // through the library's own offset lookups
    match guard(|| run_offset(c)) {
        Ok(e) => {
            if e != ev {
                return Verdict::Fail(format!("diff through IdentifyDistinct offset lookups gives {:?}, through slices {:?}", e, ev));
            }
        }
        Err(p) => return Verdict::Fail(format!("diff through IdentifyDistinct offset lookups: {}", p)),
    }
    // metamorphic: sub-range diff == extracted-slice diff shifted by the range starts
    match guard(|| run_extracted(c)) {
        Ok(e) => {
            let sh = shift_events(&e, c.or.0, c.nr.0);
            if sh != ev {
                return Verdict::Fail(format!(
                    "diff of the extracted slices shifted by ({},{}) gives {:?}, sub-range diff gives {:?}",
                    c.or.0, c.nr.0, sh, ev
                ));
            }
        }
        Err(p) => return Verdict::Fail(format!("diff_slices on the extracted slices: {}", p)),
    }

    let (d, i, e) = events_cost(&ev);
    obs.nontrivial = c.or.1 > c.or.0 && c.nr.1 > c.nr.0 && e > 0 && d + i > 0;
    obs.class(alg_name(c.alg));
    obs.class_if(c.or.0 > 0 || c.nr.0 > 0, "range start > 0");
    obs.class_if(!c.is_full(), "sub-range");
    obs.class_if(c.or.0 == c.or.1 && c.nr.0 == c.nr.1, "both ranges empty");
    obs.class_if((c.or.0 == c.or.1) != (c.nr.0 == c.nr.1), "one range empty");
    let os = c.old_slice();
    let ns = c.new_slice();
    obs.class_if(!os.is_empty() && !ns.is_empty() && os[0] == ns[0] && d + i > 0, "common prefix before an edit");
    obs.class_if(d > 0 && i > 0, "deletes and inserts");
    Verdict::Pass
}

fn strat(tier: Tier) -> BoxedStrategy<SeqCase> {
    // mode 0: the four-way differential; mode 1 (1 in 8): both sides alias one buffer
    (seq_case(tier.pick(120, 300), true, 1), 0u8..8)
        .prop_map(|(mut c, m)| {
            c.mode = if m == 1 { 1 } else { 0 };
            c
        })
        .boxed()
}

/// fixed large cases: deep Myers searches, long Patience inputs, big LCS tables
fn enum_large(tier: Tier, f: &mut dyn FnMut(SeqCase) -> bool) {
    let distinct = |from: u32, n: usize| -> Vec<u32> { (from..from + n as u32).collect() };
    let mut cases: Vec<SeqCase> = vec![];
    for alg in [0u8, 1] {
        // edit distance in the thousands, one side much shorter than the other
        cases.push(SeqCase::full(alg, distinct(0, 100), distinct(10_000, 2100)));
        cases.push(SeqCase::full(alg, distinct(0, 1600), distinct(10_000, 1600)));
        cases.push(SeqCase::full(alg, lcg_seq(1, 3000, 7), lcg_seq(2, 2500, 7)));
        // near-identical long inputs
        let a = lcg_seq(3, 20_000, 1000);
        let mut b = a.clone();
        b[7] = 5000;
        b.remove(15_000);
        b.insert(123, 6000);
        cases.push(SeqCase::full(alg, a, b));
    }
    // LCS tables: 600 x 600 and (thorough) 1100 x 1000 cells
    cases.push(SeqCase::full(2, lcg_seq(4, 600, 40), lcg_seq(5, 600, 40)));
    cases.push(SeqCase::full(2, lcg_seq(6, 520, 3), lcg_seq(7, 515, 3)));
    cases.push(SeqCase::full(2, lcg_seq(8, 1100, 50), lcg_seq(9, 1000, 50)));
    if tier == Tier::Thorough {
        cases.push(SeqCase::full(2, lcg_seq(10, 12, 5), lcg_seq(11, 110_000, 5)));
        cases.push(SeqCase::full(2, lcg_seq(12, 2100, 60), lcg_seq(13, 2100, 60)));
    }
    // sizes at and around the powers of two from 64 to 8192
    cases.extend(super::common::pow2_seq_cases(1025));
    for mut c in cases {
        c.mode = MODE_LARGE;
        if !f(c) {
            return;
        }
    }
}

fn enum_full(tier: Tier, f: &mut dyn FnMut(SeqCase) -> bool) {
    let seqs = all_seqs(3, tier.pick(4, 5));
    for a in &seqs {
        for b in &seqs {
            for alg in 0..3u8 {
                if !f(SeqCase::full(alg, a.clone(), b.clone())) {
                    return;
                }
            }
        }
    }
}

fn enum_ranges(tier: Tier, f: &mut dyn FnMut(SeqCase) -> bool) {
    let seqs = all_seqs(2, tier.pick(3, 4));
    for a in &seqs {
        for b in &seqs {
            for or in all_ranges(a.len()) {
                for nr in all_ranges(b.len()) {
                    for alg in 0..3u8 {
                        let c = SeqCase { alg, old: a.clone(), new: b.clone(), or, nr, mode: 0, k: None };
                        if !f(c) {
                            return;
                        }
                    }
                }
            }
        }
    }
}

impl Prop for C01 {
    type Case = SeqCase;
    const ID: &'static str = "C01";
    fn rule() -> String {
        "cases = (algorithm, old, new, old_range, new_range); generated by (1) size-ordered enumeration of all pairs over a 3-letter alphabet (full range) and all pairs over a 2-letter alphabet x all in-bounds range pairs, (2) proptest mixture (independent small alphabets, mutate(old), periodic, permutations, unique markers, forced common prefix/suffix; sub-ranges with probability 1/2). Each case is diffed 7 ways (slices+ranges, per-module entry over a range-checked lookup, IdentifyDistinct offset lookups, extracted slices, and the three deadline-taking twins called with None); 1 case in 8 instead passes ONE buffer as both old and new with independent ranges (aliasing) and compares with diffing against an equal copy, and diffs the Vec against a transparent back-to-front VIEW of itself (two sequences at one address); small cases are also diffed through a RE-ENTRANT hook (nested diffs from inside the callbacks); a stage of fixed large cases (edit distances in the thousands, 20 000 near-identical items, LCS tables of 360 000+ cells) is judged by validity and replay. Non-trivial = both ranges non-empty and the stream has at least one Equal and at least one change; distinct = distinct serialized case.".into()
    }
    fn assumptions() -> Vec<String> {
        vec![
            "items are u32 with the derived ==/Hash/Ord (the algorithms see values only through == and Hash)".into(),
            "a panic whose location is inside /repo (or raised by the range-checked lookup) is a violation; bounded to the stated sizes".into(),
        ]
    }
    fn stages(tier: Tier) -> Vec<Stage<SeqCase>> {
        vec![
            Stage {
                name: "enum-full",
                kind: StageKind::Enumerate {
                    scope: format!("all (old,new) over {{0,1,2}} with lengths <= {} x 3 algorithms, full ranges", tier.pick(4, 5)),
                    exhaustive: true,
                    gen: enum_full,
                },
            },
            Stage {
                name: "enum-ranges",
                kind: StageKind::Enumerate {
                    scope: format!("all (old,new) over {{0,1}} with lengths <= {} x all in-bounds (old_range,new_range) x 3 algorithms", tier.pick(3, 4)),
                    exhaustive: true,
                    gen: enum_ranges,
                },
            },
            Stage {
                name: "large",
                kind: StageKind::Enumerate {
                    scope: "fixed large cases: Myers/Patience with edit distance in the thousands (100 vs 2100 and 1600 vs 1600 distinct items, 3000 vs 2500 over 7 letters), 20000 near-identical items, LCS tables of 360 000 and 1.1 M cells (thorough: also 4.4 M cells and 12 x 110 000); near-identical sequences of N / N+1 items for N = 2^k - 1, 2^k, 2^k + 1, k = 6..13, per algorithm (LCS up to 1025)".into(),
                    exhaustive: true,
                    gen: enum_large,
                },
            },
            Stage { name: "random", kind: StageKind::Random { strategy: strat, cases: tier.pick(600_000, 4_000_000) } },
        ]
    }
    fn check(case: &SeqCase, obs: &mut Obs) -> Verdict {
        check_case(case, obs)
    }
}
