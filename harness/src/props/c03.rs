//! C03 — Myers and LCS report a shortest edit script; ratio = 2*LCS/(N+M).

use super::common::*;
use crate::core::*;
use crate::gen::*;
use crate::oracle::*;
use proptest::prelude::*;
use similar::{get_diff_ratio, TextDiff};

pub struct C03;

fn expected_ratio(l: usize, n: usize, m: usize) -> f32 {
    if n + m == 0 {
        1.0
    } else {
        2.0 * l as f32 / (n + m) as f32
    }
}

fn check_case(c: &SeqCase, obs: &mut Obs) -> Verdict {
    // Patience is excluded by the property; alg is mapped onto {Myers, Lcs}
    let mut c = c.clone();
    c.alg = if c.alg == 0 { 0 } else { 2 };
    c.k = None;
    let os = c.old_slice();
    let ns = c.new_slice();
    let (n, m) = (os.len(), ns.len());
    let l = lcs_len(os, ns);
    let want = n + m - 2 * l;
    let ev = match raw_events(&c, None) {
        Ok(e) => e,
        Err(p) => return Verdict::Fail(format!("raw diff: {}", p)),
    };
    // the totals below only mean something for a script that is a valid one (C01/C02 oracles)
    {
        let (old, new) = (&c.old, &c.new);
        if let Err(m) = validate_raw(&ev, c.old_r(), c.new_r(), &|i, j| old[i] == new[j]) {
            let short: String = format!("{:?}", ev).chars().take(600).collect();
            return Verdict::Fail(format!("{} raw stream is not a valid script: {} (stream {})", alg_name(c.alg), m, short));
        }
    }
    let (d, i, e) = events_cost(&ev);
    if d + i != want {
        return Verdict::Fail(format!(
            "{} raw stream deletes {} and inserts {} items, a shortest script has {} (N={}, M={}, LCS={}); stream {:?}",
            alg_name(c.alg), d, i, want, n, m, l, ev
        ));
    }
    if e != l {
        return Verdict::Fail(format!("{} raw stream reports {} equal items, LCS is {}", alg_name(c.alg), e, l));
    }
    // minimality must survive a re-entrant hook (nested diffs with the same algorithm from inside
    // the callbacks) ...
    if n + m <= 40 {
        match guard(|| {
            let mut h = NestingRecorder::new(alg_of(c.alg));
            similar::algorithms::diff(alg_of(c.alg), &mut h, &c.old[..], c.old_r(), &c.new[..], c.new_r()).unwrap();
            h.rec.events
        }) {
            Ok(e2) if e2 == ev => {}
            Ok(e2) => {
                let (d2, i2, _) = events_cost(&e2);
                return Verdict::Fail(format!("{}: with a hook that runs nested diffs inside its callbacks the script has {} edits ({:?}), with a plain hook {} ({:?}); a shortest script has {}", alg_name(c.alg), d2 + i2, e2, d + i, ev, want));
            }
            Err(p) => return Verdict::Fail(format!("{} with a re-entrant hook: {}", alg_name(c.alg), p)),
        }
    }
    // ... and earlier diffs on this thread that were aborted or ran out of time in mid-run
    if n + m <= 24 && (n + 2 * m) % 3 == 0 {
        let _ = guard(|| poison_thread(alg_of(c.alg), &c.new, &c.old, n % 3));
        similar::verif::clock::install(None);
        match raw_events(&c, None) {
            Ok(e2) if e2 == ev => {}
            Ok(e2) => {
                let (d2, i2, _) = events_cost(&e2);
                return Verdict::Fail(format!("{}: after diffs that were aborted or ran out of time on the same thread the script has {} edits ({:?}), before {} ({:?}); a shortest script has {}", alg_name(c.alg), d2 + i2, e2, d + i, ev, want));
            }
            Err(p) => return Verdict::Fail(format!("{} after aborted diffs: {}", alg_name(c.alg), p)),
        }
    }
    // ... and the integer mapping of items whose lawful Hash is coarse (IdentifyDistinct + capture_diff)
    if n + m <= 40 {
        let oc: Vec<crate::oracle::items::Coarse> = c.old.iter().map(|x| crate::oracle::items::Coarse(*x)).collect();
        let nc: Vec<crate::oracle::items::Coarse> = c.new.iter().map(|x| crate::oracle::items::Coarse(*x)).collect();
        match guard(|| {
            let h = similar::algorithms::IdentifyDistinct::<u32>::new(&oc[..], c.old_r(), &nc[..], c.new_r());
            similar::capture_diff(alg_of(c.alg), h.old_lookup(), h.old_range(), h.new_lookup(), h.new_range())
        }) {
            Ok(o) => {
                let (d2, i2, e2) = ops_cost(&o);
                if d2 + i2 != want || e2 != l {
                    return Verdict::Fail(format!("{} over IdentifyDistinct ids of items with a coarse Hash: {} edits / {} kept, a shortest script has {} / {} (ops {:?})", alg_name(c.alg), d2 + i2, e2, want, l, o));
                }
            }
            Err(p) => return Verdict::Fail(format!("IdentifyDistinct over coarse-hash items: {}", p)),
        }
    }
    // two different sequences at one address: the old Vec against a transparent back-to-front view of it
    if c.is_full() && n <= 24 && n > 0 {
        let view = Reversed(c.old.clone());
        let rev: Vec<u32> = c.old.iter().rev().cloned().collect();
        let l2 = lcs_len(&c.old[..], &rev[..]);
        match guard(|| similar::capture_diff(alg_of(c.alg), &view.0, 0..n, &view, 0..n)) {
            Ok(o) => {
                let (d2, i2, e2) = ops_cost(&o);
                if d2 + i2 != 2 * n - 2 * l2 || e2 != l2 {
                    return Verdict::Fail(format!("{}: {:?} diffed against a transparent back-to-front view of itself (same address): {} edits / {} kept, a shortest script has {} / {} (ops {:?})", alg_name(c.alg), c.old, d2 + i2, e2, 2 * n - 2 * l2, l2, o));
                }
            }
            Err(p) => return Verdict::Fail(format!("diffing a Vec against a back-to-front view of itself: {}", p)),
        }
    }
    let ops = match capture(&c, None) {
        Ok(o) => o,
        Err(p) => return Verdict::Fail(format!("capture: {}", p)),
    };
    {
        let (old, new) = (&c.old, &c.new);
        if let Err(m) = validate_ops(&ops, c.old_r(), c.new_r(), &|i, j| old[i] == new[j]) {
            let short: String = format!("{:?}", ops).chars().take(600).collect();
            return Verdict::Fail(format!("{} captured ops are not a valid script: {} (ops {})", alg_name(c.alg), m, short));
        }
    }
    let (d2, i2, e2) = ops_cost(&ops);
    if d2 + i2 != want || e2 != l {
        return Verdict::Fail(format!(
            "{} captured ops delete {} / insert {} / keep {} items; shortest script has {} edits, LCS {} ; ops {:?}",
            alg_name(c.alg), d2, i2, e2, want, l, ops
        ));
    }
    let r = get_diff_ratio(&ops, n, m);
    let want_r = expected_ratio(l, n, m);
    if r != want_r {
        return Verdict::Fail(format!("get_diff_ratio = {}, 2*L/(N+M) = {} (L={}, N={}, M={})", r, want_r, l, n, m));
    }
    if c.is_full() && c.mode % 3 == 0 {
        // TextDiff::ratio over the same items rendered as one-char tokens
        let os: Vec<String> = os.iter().map(|x| format!("{}", x)).collect();
        let ns: Vec<String> = ns.iter().map(|x| format!("{}", x)).collect();
        let a: Vec<&str> = os.iter().map(|s| s.as_str()).collect();
        let b: Vec<&str> = ns.iter().map(|s| s.as_str()).collect();
        let alg = alg_of(c.alg);
        let tr = guard(|| TextDiff::configure().algorithm(alg).diff_slices(&a, &b).ratio());
        match tr {
            Ok(tr) if tr == want_r => {}
            Ok(tr) => return Verdict::Fail(format!("TextDiff::ratio = {}, 2*L/(N+M) = {}", tr, want_r)),
            Err(p) => return Verdict::Fail(format!("TextDiff::diff_slices: {}", p)),
        }
    }
    obs.nontrivial = l > 0 && l < n.min(m) && want > 0;
    obs.class(alg_name(c.alg));
    obs.class_if(n > 0 && m > 0 && os[0] == ns[0] && want > 0, "common prefix > 0");
    obs.class_if(n > 0 && m > 0 && os[n - 1] == ns[m - 1] && want > 0, "common suffix > 0");
    obs.class_if(c.or.0 > 0 || c.nr.0 > 0, "range start > 0");
    obs.class_if(n + m > 200, "N+M > 200");
    obs.class_if(want >= 256, "D >= 256");
    obs.metric("largest D", want as f64);
    Verdict::Pass
}

fn strat(tier: Tier) -> BoxedStrategy<SeqCase> {
    // LCS uses a BTreeMap table: keep its inputs <= 100 items
    prop_oneof![
        60 => seq_case(tier.pick(40, 100), true, 3),
        20 => seq_case(tier.pick(100, 300), true, 3).prop_map(|mut c| {
            c.alg = 0;
            c
        }),
        // LCS beyond 128 items per side: distinct items rearranged by block moves and reversals (the
        // best common subsequence pairs positions that are far apart), and unrelated filler around
        // a few shared blocks (1 case in ~100: the table is a BTreeMap)
        1 => prop_oneof![
            perm_pair(130, tier.pick(260, 420)),
            (130usize..tier.pick(300usize, 420), 130usize..tier.pick(300usize, 420), proptest::collection::vec((any::<u16>(), any::<u16>(), 1usize..6), 1..=4)).prop_map(|(n, m, blocks)| {
                let mut a: Vec<u32> = (0..n as u32).map(|i| 1_000_000 + i).collect();
                let mut b: Vec<u32> = (0..m as u32).map(|i| 2_000_000 + i).collect();
                for (i, (pa, pb, len)) in blocks.into_iter().enumerate() {
                    let (x, y) = (pos(pa, a.len() - len), pos(pb, b.len() - len));
                    for t in 0..len {
                        a[x + t] = (i * 10 + t) as u32;
                        b[y + t] = (i * 10 + t) as u32;
                    }
                }
                (a, b)
            }),
        ].prop_map(|(a, b)| SeqCase::full(2, a, b)),
        // two sorted "pages" of consecutive values that overlap in a few boundary records
        20 => (0u32..50, 100usize..300, 100usize..300, 1usize..60, 1usize..4, 0u8..3).prop_map(|(start, n, m, overlap, rep, mode)| {
            let a: Vec<u32> = (0..n).map(|i| start + (i / rep) as u32).collect();
            let last = *a.last().unwrap();
            let first_b = last.saturating_sub((overlap / rep) as u32);
            let b: Vec<u32> = (0..m).map(|i| first_b + (i / rep) as u32).collect();
            let mut c = SeqCase::full(0, a, b);
            c.mode = mode;
            c
        }),
        // Myers with a LARGE edit distance (deep searches: D in the hundreds)
        20 => (2u32..8, proptest::collection::vec(0u32..64, 150..=tier.pick(400usize, 900)), proptest::collection::vec(0u32..64, 150..=tier.pick(400usize, 900)), 0u8..3).prop_map(|(k, a, b, mode)| {
            let mut c = SeqCase::full(0, a.into_iter().map(|x| x % k).collect(), b.into_iter().map(|x| x % k).collect());
            c.mode = mode;
            c
        }),
    ]
    .boxed()
}

fn enum_small(tier: Tier, f: &mut dyn FnMut(SeqCase) -> bool) {
    let seqs = all_seqs(3, tier.pick(5, 6));
    for a in &seqs {
        for b in &seqs {
            for alg in [0u8, 2] {
                if !f(SeqCase::full(alg, a.clone(), b.clone())) {
                    return;
                }
            }
        }
    }
}

/// fixed large cases: matching runs of thousands of items, big LCS tables
fn enum_large(tier: Tier, f: &mut dyn FnMut(SeqCase) -> bool) {
    let mut cases: Vec<SeqCase> = vec![];
    for run in [4097usize, 9000] {
        // a long block of identical items between differing ends
        let mut a = vec![1u32];
        a.extend(std::iter::repeat(0).take(run));
        a.push(2);
        let mut b = vec![3u32];
        b.extend(std::iter::repeat(0).take(run));
        b.push(4);
        cases.push(SeqCase::full(0, a, b));
        // the same with a period-2 block and one item missing in the middle
        let a: Vec<u32> = std::iter::once(7).chain((0..run).map(|i| (i % 2) as u32)).chain(std::iter::once(8)).collect();
        let mut b: Vec<u32> = std::iter::once(9).chain((0..run).map(|i| (i % 2) as u32)).chain(std::iter::once(6)).collect();
        b.remove(run / 2);
        cases.push(SeqCase::full(0, a, b));
    }
    // long distinct near-identical inputs
    let a: Vec<u32> = (0..6000).collect();
    let mut b = a.clone();
    b[10] = 100_000;
    b.remove(3000);
    b.insert(5000, 100_001);
    cases.push(SeqCase::full(0, a, b));
    // LCS through the Algorithm dispatch with more than 2^20 table cells: repeated items around
    // unique items that cross (where anchoring on unique items would not be minimal)
    // head: a unique item X crossing a run of repeated items ([X,0,0,0] vs [0,0,0,X])
    let mut a = vec![200u32, 0, 0, 0];
    let mut b = vec![0u32, 0, 0, 200];
    a.extend(lcg_seq(31, 1060, 3).into_iter().map(|x| x + 1));
    b.extend(lcg_seq(32, 1050, 3).into_iter().map(|x| x + 1));
    for (i, v) in [(50usize, 100u32), (400, 101), (900, 102)] {
        a.insert(i, v);
        b.insert(1000 - i, v);
    }
    let mut c = SeqCase::full(2, a, b);
    c.mode = 0;
    if tier == Tier::Thorough {
        cases.push(c.clone());
        c.mode = 1;
    }
    cases.push(c);
    // LCS with one side beyond 65 536 items and a tiny other side (the table stays small: only the
    // product is bounded, not each dimension)
    for flip in [false, true] {
        let mut long = vec![2u32];
        long.extend(std::iter::repeat(9).take(65_600));
        long.push(3);
        let short = vec![1u32, 2, 3, 4];
        let mut c = if flip { SeqCase::full(2, short, long) } else { SeqCase::full(2, long, short) };
        c.mode = 1;
        cases.push(c);
    }
    // strictly increasing sequences of several hundred items with the disorder at one end only (a fresh
    // item in front; the last ten keys moved to the front), in six neighbouring sizes so that every raw
    // entry point (diff_deadline, diff_slices, diff - chosen by the lengths) sees them
    for n in 400u32..406 {
        let a: Vec<u32> = (0..n).collect();
        let mut b = vec![100_000u32];
        b.extend(0..n);
        cases.push(SeqCase::full(0, a.clone(), b));
        let mut b2: Vec<u32> = (n - 10..n).collect();
        b2.extend(0..n - 10);
        cases.push(SeqCase::full(0, a, b2));
    }
    for c in cases {
        if !f(c) {
            return;
        }
    }
}

impl Prop for C03 {
    type Case = SeqCase;
    const ID: &'static str = "C03";
    fn rule() -> String {
        "cases = (Myers|Lcs, old, new, ranges, capture entry point), no deadline; size-ordered enumeration of all pairs over {0,1,2} plus proptest mixture (small alphabets, forced common prefix/suffix, sub-ranges; Myers with D in the hundreds; LCS on 130-420 distinct items rearranged by block moves or unrelated filler around a few shared blocks). Oracle: independent O(NM) LCS length L; raw stream and captured ops must delete+insert exactly N+M-2L items, keep exactly L, and ratio == 2L/(N+M) (f32, same rounding). Small cases are also diffed through a re-entrant hook (nested diffs inside the callbacks), once more after diffs on the same thread that were aborted by a failing hook or ran out of time in mid-run, through IdentifyDistinct ids of coarse-hash items, and against a transparent back-to-front view of the old Vec (same address): all must stay minimal. Non-trivial = 0 < L < min(N,M) and D > 0; distinct = distinct serialized case.".into()
    }
    fn assumptions() -> Vec<String> {
        vec!["LCS inputs are mostly <= 100 items (its table is a BTreeMap), 1 case in ~120 has 130-420 items per side; Myers up to 900".into()]
    }
    fn stages(tier: Tier) -> Vec<Stage<SeqCase>> {
        vec![
            Stage {
                name: "enum-small",
                kind: StageKind::Enumerate {
                    scope: format!("all (old,new) over {{0,1,2}} with lengths <= {} x {{Myers, Lcs}}, full ranges", tier.pick(5, 6)),
                    exhaustive: true,
                    gen: enum_small,
                },
            },
            Stage {
                name: "large",
                kind: StageKind::Enumerate {
                    scope: "fixed large cases: blocks of 4097 and 9000 identical / period-2 items between differing ends (Myers), 6000 distinct near-identical items, LCS via the Algorithm dispatch on 1063 x 1053 items (1.1 M table cells) with crossing unique items, LCS on 65 602 x 4 and 4 x 65 602 items; increasing sequences of 400-405 items with a fresh item in front / the last ten keys moved to the front (Myers through each raw entry point)".into(),
                    exhaustive: true,
                    gen: enum_large,
                },
            },
            Stage { name: "random", kind: StageKind::Random { strategy: strat, cases: tier.pick(300_000, 1_200_000) } },
        ]
    }
    fn check(case: &SeqCase, obs: &mut Obs) -> Verdict {
        check_case(case, obs)
    }
}
