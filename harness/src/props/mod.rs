pub mod common;
pub mod c01;
pub mod c02;
pub mod c03;
pub mod c09;
pub mod c11;
