pub mod c01;
