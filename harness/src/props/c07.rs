//! C07 — deadline expiry at any point still yields a valid diff, promptly; it is plumbed.
//! Fault enumeration over k = index of the deadline probe at which time runs out, placed by the
//! cfg(similar_verif) virtual clock.

use super::common::*;
use crate::core::*;
use crate::gen::*;
use crate::oracle::counting::{self, Cnt};
use crate::oracle::*;
use proptest::collection::vec;
use proptest::prelude::*;
use serde::{Deserialize, Serialize};
use similar::algorithms;
use similar::{capture_diff_slices_deadline, TextDiff};
use std::time::{Duration, Instant};

pub struct C07;

#[derive(Clone, Debug, PartialEq, Eq, Hash, Serialize, Deserialize)]
pub struct Case {
    pub seq: SeqCase,
    /// raw selectors for sampled expiry indices (used only when there are more than 64 probes)
    pub ks: Vec<u16>,
}

fn raw_cnt(c: &SeqCase, oc: &[Cnt], nc: &[Cnt], deadline: Option<Instant>) -> Result<Vec<Ev>, String> {
    guard(|| {
        let mut r = Recorder::new();
        match c.mode % 2 {
            0 => algorithms::diff_deadline(alg_of(c.alg), &mut r, oc, c.old_r(), nc, c.new_r(), deadline).unwrap(),
            _ => {
                // diff_slices_deadline on the extracted slices, shifted back
                algorithms::diff_slices_deadline(alg_of(c.alg), &mut r, &oc[c.old_r()], &nc[c.new_r()], deadline).unwrap();
                r.events = shift_events(&r.events, c.or.0, c.nr.0);
            }
        }
        r.events
    })
}

pub const POST_EXPIRY_FACTOR: u64 = 4;
/// whole-run budget for a call whose (real) deadline has passed before it starts: prefix/suffix
/// scans and Patience's hashing happen before the first check
pub const REAL_PAST_FACTOR: u64 = 8;
/// the capture pipeline adds Compact's clean-up (prefix/suffix scans between neighbouring ops)
pub const CAPTURE_POST_EXPIRY_FACTOR: u64 = 8;
/// comparisons after a real deadline passed in the middle of a run: the rest of the step the expiry
/// falls into (one Myers round, one LCS row) plus the fallback
pub const REAL_MID_FACTOR: u64 = 8;

/// Wall-clock semantics that probe-indexed time cannot see (one fixed case per run, mode 7):
/// * a timeout is relative to the start of the diff, not to the moment the builder was configured;
/// * a timeout too large to be represented means "no deadline" (never a panic);
/// * the same for a far-away absolute deadline.
/// Uses the real clock, so it is written to be insensitive to scheduling: the diffed input is tiny
/// (microseconds) against a 1.5 s timeout, and a mismatch must repeat 3 times to count.
fn check_wall_clock(case: &Case, obs: &mut Obs) -> Verdict {
    let c = &case.seq;
    let os: Vec<String> = c.old.iter().map(|x| format!("w{}", x)).collect();
    let ns: Vec<String> = c.new.iter().map(|x| format!("w{}", x)).collect();
    let a: Vec<&str> = os.iter().map(|s| s.as_str()).collect();
    let b: Vec<&str> = ns.iter().map(|s| s.as_str()).collect();
    let alg = alg_of(c.alg);
    let want = match guard(|| TextDiff::configure().algorithm(alg).diff_slices(&a, &b).ops().to_vec()) {
        Ok(o) => o,
        Err(p) => return Verdict::Fail(format!("diff_slices: {}", p)),
    };
    // unlimited timeouts
    for d in [Duration::MAX, Duration::from_secs(u64::MAX), Duration::from_secs(1 << 62)] {
        match guard(|| TextDiff::configure().algorithm(alg).timeout(d).diff_slices(&a, &b).ops().to_vec()) {
            Ok(o) if o == want => {}
            Ok(o) => return Verdict::Fail(format!("timeout({:?}) gives {:?}, no deadline gives {:?}", d, o, want)),
            Err(p) => return Verdict::Fail(format!("timeout({:?}): {}", d, p)),
        }
    }
    // a zero / one-nanosecond timeout is a deadline that is over by the first checks: the result is the
    // approximation for an expiry at one of the first probes (never the exact diff of an input whose
    // exact diff differs from all of them)
    {
        let mut approx = vec![];
        for k in 0..4u64 {
            match capture(c, Some(k)) {
                Ok(o) => approx.push(o),
                Err(p) => return Verdict::Fail(format!("capture with expiry at probe {}: {}", k, p)),
            }
        }
        if !approx.contains(&want) {
            for d in [Duration::from_secs(0), Duration::from_nanos(1)] {
                match guard(|| TextDiff::configure().algorithm(alg).timeout(d).diff_slices(&a, &b).ops().to_vec()) {
                    Ok(o) if approx.contains(&o) => {}
                    Ok(o) => return Verdict::Fail(format!("{}: timeout({:?}) gives {:?}, which is not the result of an expiry at one of the first four probes {:?} (no deadline gives {:?})", alg_name(c.alg), d, o, approx, want)),
                    Err(p) => return Verdict::Fail(format!("timeout({:?}): {}", d, p)),
                }
            }
        }
    }
    // a reused configuration: the timeout must count from the start of each diff
    let mut mismatches = 0;
    for _attempt in 0..3 {
        let mut cfg = TextDiff::configure();
        cfg.algorithm(alg).timeout(Duration::from_millis(1500));
        std::thread::sleep(Duration::from_millis(1700));
        match guard(|| cfg.diff_slices(&a, &b).ops().to_vec()) {
            Ok(o) if o == want => break,
            Ok(_) => mismatches += 1,
            Err(p) => return Verdict::Fail(format!("diff with a configured timeout: {}", p)),
        }
    }
    if mismatches == 3 {
        return Verdict::Fail(format!(
            "{}: a builder configured with timeout(1.5 s) and used 1.7 s later treats the deadline as already expired (3 attempts): the timeout is not relative to the diff operation",
            alg_name(c.alg)
        ));
    }
    // an absolute deadline is absolute: configured 0.3 s ahead on a builder that is used 0.5 s
    // later, it has passed (the result is an early-expiry approximation, not the exact diff)
    {
        let mut approx = vec![];
        for k in 0..4u64 {
            if let Ok(o) = capture(c, Some(k)) {
                approx.push(o);
            }
        }
        if !approx.contains(&want) {
            let mut cfg = TextDiff::configure();
            cfg.algorithm(alg).deadline(Instant::now() + Duration::from_millis(300));
            std::thread::sleep(Duration::from_millis(500));
            match guard(|| cfg.diff_slices(&a, &b).ops().to_vec()) {
                Ok(o) if approx.contains(&o) => {}
                Ok(o) => {
                    return Verdict::Fail(format!(
                        "{}: a builder configured with deadline(now + 0.3 s) and used 0.5 s later gives {} ops that are not an early-expiry approximation (exact diff: {}): the absolute deadline moved",
                        alg_name(c.alg),
                        o.len(),
                        o == want
                    ))
                }
                Err(p) => return Verdict::Fail(format!("diff with a configured deadline: {}", p)),
            }
        }
    }
    obs.executions = 6;
    obs.nontrivial = want.len() >= 2;
    obs.class("wall-clock semantics (reused timeout, unlimited timeout)");
    Verdict::Pass
}

/// mode 8: inputs far too large to diff exactly (LCS tables of 80 M cells): only expiry at the
/// first probe (virtual and real clock) is executed; the result must be a valid script.
fn check_expired_only(case: &Case, obs: &mut Obs) -> Verdict {
    let c = &case.seq;
    let (old, new) = (&c.old, &c.new);
    let eq = |i: usize, j: usize| old[i] == new[j];
    let name = alg_name(c.alg);
    let oc: Vec<Cnt> = old.iter().map(|x| Cnt(*x)).collect();
    let nc: Vec<Cnt> = new.iter().map(|x| Cnt(*x)).collect();
    let (n, m) = (c.or.1 - c.or.0, c.nr.1 - c.nr.0);
    counting::reset();
    similar::verif::clock::install(Some(0));
    let ev = raw_cnt(c, &oc, &nc, Some(far_future()));
    let post = counting::post_expiry();
    similar::verif::clock::install(None);
    let ev = match ev {
        Ok(e) => e,
        Err(p) => return Verdict::Fail(format!("{} ({} x {} items) with expiry at the first probe: {}", name, n, m, p)),
    };
    if let Err(msg) = validate_raw(&ev, c.old_r(), c.new_r(), &eq) {
        return Verdict::Fail(format!("{} ({} x {} items) with expiry at the first probe: {} events: {}", name, n, m, ev.len(), msg));
    }
    let bound = POST_EXPIRY_FACTOR * (n + m) as u64 + 16;
    if post > bound {
        return Verdict::Fail(format!("{} ({} x {} items): {} comparisons after expiry at the first probe, more than {}", name, n, m, post, bound));
    }
    if let Some(past) = Instant::now().checked_sub(Duration::from_secs(5)) {
        match raw_cnt(c, &oc, &nc, Some(past)) {
            Ok(e) if e == ev => {}
            Ok(e) => return Verdict::Fail(format!("{}: real deadline in the past gives {} events, virtual expiry at probe 0 gives {}", name, e.len(), ev.len())),
            Err(p) => return Verdict::Fail(format!("{} with a real deadline in the past: {}", name, p)),
        }
    }
    let ops = match capture(c, Some(0)) {
        Ok(o) => o,
        Err(p) => return Verdict::Fail(format!("capture ({} x {} items) with expiry at the first probe: {}", n, m, p)),
    };
    if let Err(msg) = super::c02::judge_ops(&ops, old, c.old_r(), new, c.new_r()) {
        let short: String = msg.chars().take(400).collect();
        return Verdict::Fail(format!("{} capture ({} x {} items) with expiry at the first probe: {}", name, n, m, short));
    }
    if let Err(msg) = normal_form(&ops, &eq) {
        return Verdict::Fail(format!("{} capture with expiry at the first probe: {}", name, msg));
    }
    obs.executions = 3;
    obs.nontrivial = ev.len() >= 3;
    obs.class("huge input, expiry at the first probe only");
    Verdict::Pass
}

/// mode 9: inputs whose exact diff is expensive (LCS tables of 66 000 - 160 000 cells, Myers with D in
/// the hundreds): only the deadline that never expires (virtual clock, and a real deadline one hour
/// ahead) is executed, through every entry point; the result must be exactly the no-deadline result.
fn check_never_only(case: &Case, obs: &mut Obs) -> Verdict {
    let c = &case.seq;
    let name = alg_name(c.alg);
    let alg = alg_of(c.alg);
    let raw = |dl: Option<Instant>| -> Result<Vec<Ev>, String> {
        guard(|| {
            let mut r = Recorder::new();
            algorithms::diff_deadline(alg, &mut r, &c.old[..], c.old_r(), &c.new[..], c.new_r(), dl).unwrap();
            r.events
        })
    };
    let e0 = match raw(None) {
        Ok(e) => e,
        Err(p) => return Verdict::Fail(format!("{} without deadline: {}", name, p)),
    };
    similar::verif::clock::install(Some(u64::MAX));
    let e1 = raw(Some(far_future()));
    let probes = similar::verif::clock::probes();
    similar::verif::clock::install(None);
    let e2 = raw(Some(far_future()));
    for (what, e) in [("a virtual clock that never expires", e1), ("a real deadline one hour ahead", e2)] {
        match e {
            Ok(e) if e == e0 => {}
            Ok(e) => return Verdict::Fail(format!("{} ({} x {} items): {} gives a different script ({} events, {} changed items) than no deadline ({} events, {} changed items)", name, c.old.len(), c.new.len(), what, e.len(), events_cost(&e).0 + events_cost(&e).1, e0.len(), events_cost(&e0).0 + events_cost(&e0).1)),
            Err(p) => return Verdict::Fail(format!("{} with {}: {}", name, what, p)),
        }
    }
    let ops0 = match capture(c, None) {
        Ok(o) => o,
        Err(p) => return Verdict::Fail(format!("capture without deadline: {}", p)),
    };
    match capture(c, Some(u64::MAX)) {
        Ok(o) if o == ops0 => {}
        Ok(_) => return Verdict::Fail(format!("{} ({} x {} items): capture_diff_deadline with a deadline that never expires differs from capture_diff", name, c.old.len(), c.new.len())),
        Err(p) => return Verdict::Fail(format!("capture with a never-expiring deadline: {}", p)),
    }
    let os: Vec<String> = c.old.iter().map(|x| format!("w{}", x)).collect();
    let ns: Vec<String> = c.new.iter().map(|x| format!("w{}", x)).collect();
    let a: Vec<&str> = os.iter().map(|s| s.as_str()).collect();
    let b: Vec<&str> = ns.iter().map(|s| s.as_str()).collect();
    for variant in 0..2 {
        let r = guard(|| match variant {
            0 => TextDiff::configure().algorithm(alg).deadline(far_future()).diff_slices(&a, &b).ops().to_vec(),
            _ => TextDiff::configure().algorithm(alg).timeout(Duration::from_secs(3600)).diff_slices(&a, &b).ops().to_vec(),
        });
        match r {
            Ok(o) if o == ops0 => {}
            Ok(_) => return Verdict::Fail(format!("{} ({} x {} items): TextDiffConfig with a {} one hour ahead gives other ops than no deadline", name, c.old.len(), c.new.len(), ["deadline", "timeout"][variant])),
            Err(p) => return Verdict::Fail(format!("TextDiffConfig: {}", p)),
        }
    }
    obs.executions = 7;
    obs.nontrivial = e0.len() >= 3 && probes >= 2;
    obs.class("expensive exact diff: never-expiring deadlines only");
    obs.class(name);
    Verdict::Pass
}

fn check_case(case: &Case, obs: &mut Obs) -> Verdict {
    if case.seq.mode == 7 {
        return check_wall_clock(case, obs);
    }
    if case.seq.mode == 9 {
        return check_never_only(case, obs);
    }
    if case.seq.mode == 8 {
        return check_expired_only(case, obs);
    }
    let c = &case.seq;
    let (old, new) = (&c.old, &c.new);
    let oc: Vec<Cnt> = old.iter().map(|x| Cnt(*x)).collect();
    let nc: Vec<Cnt> = new.iter().map(|x| Cnt(*x)).collect();
    let eq = |i: usize, j: usize| old[i] == new[j];
    let (n, m) = (c.or.1 - c.or.0, c.nr.1 - c.nr.0);
    let name = alg_name(c.alg);
    let mut execs = 0u64;

    // baseline: no deadline
    similar::verif::clock::install(None);
    let e0 = match raw_cnt(c, &oc, &nc, None) {
        Ok(e) => e,
        Err(p) => return Verdict::Fail(format!("{} without deadline: {}", name, p)),
    };
    execs += 1;
    // never-expiring deadline == no deadline; learn T
    similar::verif::clock::install(Some(u64::MAX));
    let e_never = raw_cnt(c, &oc, &nc, Some(far_future()));
    let t = similar::verif::clock::probes();
    similar::verif::clock::install(None);
    execs += 1;
    match e_never {
        Ok(e) if e == e0 => {}
        Ok(e) => return Verdict::Fail(format!("{}: a deadline that never expires gives {:?}, no deadline gives {:?}", name, e, e0)),
        Err(p) => return Verdict::Fail(format!("{} with a never-expiring deadline: {}", name, p)),
    }
    let ops0 = match capture(c, None) {
        Ok(o) => o,
        Err(p) => return Verdict::Fail(format!("capture without deadline: {}", p)),
    };

    // expiry indices
    let mut ks: Vec<u64> = if t <= 64 {
        (0..=t).collect()
    } else {
        let mut v: Vec<u64> = (0..8).collect();
        v.push(t - 1);
        v.push(t);
        for r in &case.ks {
            v.push(pos(*r, t as usize) as u64);
        }
        v
    };
    ks.sort();
    ks.dedup();

    let mut differs = false;
    let bound = POST_EXPIRY_FACTOR * (n + m) as u64 + 16;
    for &k in &ks {
        counting::reset();
        similar::verif::clock::install(Some(k));
        let ev = raw_cnt(c, &oc, &nc, Some(far_future()));
        let post = counting::post_expiry();
        let expired = similar::verif::clock::expired();
        similar::verif::clock::install(None);
        execs += 1;
        let ev = match ev {
            Ok(e) => e,
            Err(p) => return Verdict::Fail(format!("{} with expiry at probe {} of {}: {}", name, k, t, p)),
        };
        if let Err(msg) = validate_raw(&ev, c.old_r(), c.new_r(), &eq) {
            return Verdict::Fail(format!("{} with expiry at probe {} of {}: stream {:?}: {}", name, k, t, ev, msg));
        }
        if n + m > 0 {
            obs.metric("post-expiry comparisons / (N+M)", post as f64 / (n + m) as f64);
        }
        if post > bound {
            return Verdict::Fail(format!(
                "{} with expiry at probe {} of {}: {} element comparisons after expiry, more than {}*(N+M)+16 = {} (N={}, M={})",
                name, k, t, post, POST_EXPIRY_FACTOR, bound, n, m
            ));
        }
        if k >= t {
            if expired {
                return Verdict::Fail(format!("{}: clock set to expire at probe {} but only {} probes exist and it reports expiry", name, k, t));
            }
            if ev != e0 {
                return Verdict::Fail(format!("{}: deadline not reached (k={} >= T={}) but the stream {:?} differs from no deadline {:?}", name, k, t, ev, e0));
            }
        }
        if ev != e0 {
            differs = true;
        }
        // promptness through the capture pipeline (Compact's clean-up compares items as well)
        {
            counting::reset();
            similar::verif::clock::install(Some(k));
            let r = guard(|| similar::capture_diff_deadline(alg_of(c.alg), &oc[..], c.old_r(), &nc[..], c.new_r(), Some(far_future())));
            let post_c = counting::post_expiry();
            similar::verif::clock::install(None);
            execs += 1;
            if let Err(p) = r {
                return Verdict::Fail(format!("capture_diff_deadline with expiry at probe {}: {}", k, p));
            }
            if n + m > 0 {
                obs.metric("capture pipeline: post-expiry comparisons / (N+M)", post_c as f64 / (n + m) as f64);
            }
            let bound_c = CAPTURE_POST_EXPIRY_FACTOR * (n + m) as u64 + 16;
            if post_c > bound_c {
                return Verdict::Fail(format!(
                    "{} capture_diff_deadline with expiry at probe {} of {}: {} element comparisons after expiry, more than {}*(N+M)+16 = {} (N={}, M={})",
                    name, k, t, post_c, CAPTURE_POST_EXPIRY_FACTOR, bound_c, n, m
                ));
            }
        }
        // captured ops at the same expiry index
        let ops = match capture(c, Some(k)) {
            Ok(o) => o,
            Err(p) => return Verdict::Fail(format!("capture with expiry at probe {}: {}", k, p)),
        };
        execs += 1;
        if let Err(msg) = super::c02::judge_ops(&ops, old, c.old_r(), new, c.new_r()) {
            return Verdict::Fail(format!("{} capture with expiry at probe {} of {}: {}", name, k, t, msg));
        }
        if let Err(msg) = normal_form(&ops, &eq) {
            return Verdict::Fail(format!("{} capture with expiry at probe {} of {}: ops {:?}: {}", name, k, t, ops, msg));
        }
        if k >= t && ops != ops0 {
            return Verdict::Fail(format!("capture: deadline not reached but ops {:?} != no-deadline ops {:?}", ops, ops0));
        }
        // what a deadline fallback reports goes through the same clean-up: an insertion or deletion that
        // stands alone in the captured list carries the exact position on the other side (C01's clause;
        // a mismatch that the swap repair removes is the known finding D7 and C11's / C05's business)
        if let Err((false, m)) = carried_exact(&ops, c.or.0, c.nr.0) {
            similar::verif::swap::set_repair(true);
            let again = capture(c, Some(k));
            similar::verif::swap::set_repair(false);
            execs += 1;
            match again {
                Ok(o2) => {
                    if let Err((_, m2)) = carried_exact(&o2, c.or.0, c.nr.0) {
                        return Verdict::Fail(format!("{} capture with expiry at probe {} of {}: ops {:?}: {} (persists with the swap repair on: {})", name, k, t, ops, m, m2));
                    }
                    obs.class("known finding D7 reached under a deadline (not judged here)");
                }
                Err(p) => return Verdict::Fail(format!("capture with swap repair: {}", p)),
            }
        }
        // plumbing: the text-diff builder and capture_diff_slices_deadline reach the algorithm.
        // Judged only where probe-indexed time is unambiguous even if a wrapper adds probes of its
        // own: expiry at the very first probe (every later probe reports expiry too) and a clock
        // that never expires; at other k the result only has to be a valid script.
        if c.is_full() && (k < 3 || k + 1 >= t || k % 5 == 0) {
            let os: Vec<String> = old.iter().map(|x| format!("w{}", x)).collect();
            let ns: Vec<String> = new.iter().map(|x| format!("w{}", x)).collect();
            let a: Vec<&str> = os.iter().map(|s| s.as_str()).collect();
            let b: Vec<&str> = ns.iter().map(|s| s.as_str()).collect();
            let alg = alg_of(c.alg);
            let kk = if k >= t { u64::MAX } else { k };
            for variant in 0..3 {
                let r = guard(|| {
                    similar::verif::clock::install(Some(kk));
                    let ops = match variant {
                        0 => TextDiff::configure().algorithm(alg).deadline(far_future()).diff_slices(&a, &b).ops().to_vec(),
                        1 => TextDiff::configure().algorithm(alg).timeout(Duration::from_secs(3600)).diff_slices(&a, &b).ops().to_vec(),
                        _ => capture_diff_slices_deadline(alg, &a, &b, Some(far_future())),
                    };
                    let p = similar::verif::clock::probes();
                    similar::verif::clock::install(None);
                    (ops, p)
                });
                execs += 1;
                let what = ["TextDiffConfig::deadline", "TextDiffConfig::timeout", "capture_diff_slices_deadline"][variant];
                match r {
                    Ok((tops, p)) => {
                        if let Err(msg) = super::c02::judge_ops(&tops, &a, 0..a.len(), &b, 0..b.len()) {
                            return Verdict::Fail(format!("{} with expiry at probe {}: {}", what, k, msg));
                        }
                        if (k == 0 || k >= t) && tops != ops {
                            return Verdict::Fail(format!(
                                "{} with {}: ops {:?} differ from capture_diff_deadline under the same clock {:?} (the deadline does not reach the algorithm?)",
                                what, if k == 0 { "expiry at the first probe" } else { "a clock that never expires" }, tops, ops
                            ));
                        }
                        if t > 0 && p == 0 {
                            return Verdict::Fail(format!("{}: no deadline probe at all, the direct call makes {} (deadline not plumbed)", what, t));
                        }
                    }
                    Err(p) => return Verdict::Fail(format!("{}: {}", what, p)),
                }
            }
        }
    }
    // the real clock: a deadline in the past behaves like expiry at probe 0, a far one like none
    if let Some(past) = Instant::now().checked_sub(Duration::from_secs(5)) {
        counting::reset();
        let real_past = raw_cnt(c, &oc, &nc, Some(past));
        let total_past = counting::total();
        counting::reset();
        if n + m > 0 {
            obs.metric("real deadline in the past: total comparisons / (N+M)", total_past as f64 / (n + m) as f64);
        }
        // with the REAL clock every comparison of this run happens after expiry, however rarely the
        // clock is consulted (probe-indexed time cannot see a throttled probe)
        let bound_real = REAL_PAST_FACTOR * (n + m) as u64 + 16;
        if total_past > bound_real {
            return Verdict::Fail(format!(
                "{}: {} element comparisons although the deadline had passed before the call, more than {}*(N+M)+16 = {} (N={}, M={})",
                name, total_past, REAL_PAST_FACTOR, bound_real, n, m
            ));
        }
        match real_past {
            Ok(ev) => {
                similar::verif::clock::install(Some(0));
                let want = raw_cnt(c, &oc, &nc, Some(far_future()));
                similar::verif::clock::install(None);
                if Ok(&ev) != want.as_ref() {
                    return Verdict::Fail(format!("{}: real clock with a deadline in the past gives {:?}, expiry at probe 0 gives {:?}", name, ev, want));
                }
            }
            Err(p) => return Verdict::Fail(format!("{} with a real deadline in the past: {}", name, p)),
        }
        execs += 2;
    }
    // the builder with the real clock: an absolute deadline in the past reaches the algorithm, also
    // when a (long) timeout or an earlier far deadline was configured on the same builder before it
    if c.is_full() {
        if let (Some(past), Ok(want)) = (Instant::now().checked_sub(Duration::from_secs(5)), capture(c, Some(0))) {
            let os: Vec<String> = old.iter().map(|x| format!("w{}", x)).collect();
            let ns: Vec<String> = new.iter().map(|x| format!("w{}", x)).collect();
            let a: Vec<&str> = os.iter().map(|s| s.as_str()).collect();
            let b: Vec<&str> = ns.iter().map(|s| s.as_str()).collect();
            let alg = alg_of(c.alg);
            for variant in 0..3 {
                let what = ["deadline(past)", "timeout(1 h) then deadline(past)", "deadline(far) then deadline(past)"][variant];
                let r = guard(|| {
                    let mut cfg = TextDiff::configure();
                    cfg.algorithm(alg);
                    match variant {
                        0 => {}
                        1 => {
                            cfg.timeout(Duration::from_secs(3600));
                        }
                        _ => {
                            cfg.deadline(far_future());
                        }
                    }
                    cfg.deadline(past);
                    cfg.diff_slices(&a, &b).ops().to_vec()
                });
                execs += 1;
                match r {
                    Ok(o) if o == want => {}
                    Ok(o) => return Verdict::Fail(format!("{}: TextDiffConfig with {} (real clock) gives {:?}, an expired deadline gives {:?}", name, what, o, want)),
                    Err(p) => return Verdict::Fail(format!("TextDiffConfig with {}: {}", what, p)),
                }
            }
        }
    }
    // the real clock running out in the MIDDLE of the run: an item whose == waits, at a chosen
    // comparison, until a real deadline (150 us ahead) has passed; the comparisons made from then on
    // are bounded like those after a probe-indexed expiry plus the rest of the step the expiry falls
    // into, and the result is a valid script.  Probe-indexed time cannot see a probe that was moved
    // out of a loop or is consulted once per run; this does.
    {
        use crate::oracle::blocking::{self, Blk};
        let ob: Vec<Blk> = old.iter().map(|x| Blk(*x)).collect();
        let nb: Vec<Blk> = new.iter().map(|x| Blk(*x)).collect();
        let run = |deadline: Option<Instant>| -> Result<Vec<Ev>, String> {
            guard(|| {
                let mut r = Recorder::new();
                algorithms::diff_deadline(alg_of(c.alg), &mut r, &ob[..], c.old_r(), &nb[..], c.new_r(), deadline).unwrap();
                r.events
            })
        };
        blocking::arm(None, u64::MAX);
        let total = match run(None) {
            Ok(_) => blocking::count(),
            Err(p) => return Verdict::Fail(format!("{} without deadline: {}", name, p)),
        };
        execs += 1;
        // LCS: the rest of one table row plus the flush - linear.  Myers: the rest of ONE search round,
        // which is at most (2d+2) snakes of at most min(N,M) items with d <= D/2+1 (D = size of the
        // shortest script, taken from the deadline-free run; sub-boxes need fewer rounds), plus the
        // linear fallback.  Patience adds hashing and a Myers run over its unique lists whose own edit
        // distance is only bounded by N+M.  (A flat 8*(N+M) is NOT a theorem for Myers: a long periodic
        // run reached by 30 diagonals in the same round costs 12*(N+M) after expiry on the unchanged
        // code - found by a read-only audit, outside the generated families.)
        let linear = REAL_MID_FACTOR * (n + m) as u64 + 16;
        let d_exact = {
            let (dd, ii, _) = events_cost(&e0);
            (dd + ii) as u64
        };
        let round = |d: u64| (d + 4) * (n.min(m) as u64 + 1);
        let bound_mid = match c.alg {
            2 => linear,
            0 => linear + round(d_exact),
            _ => linear + round((n + m) as u64),
        };
        let mut points = vec![1u64, total / 3 + 1, total / 2 + 1];
        if let Some(r) = case.ks.first() {
            points.push(pos(*r, total as usize) as u64 + 1);
        }
        points.sort();
        points.dedup();
        for at in points {
            if total == 0 {
                break;
            }
            // far enough ahead that the chosen comparison is normally reached first (each comparison
            // of this item type reads the clock: about 50 ns)
            let deadline = Instant::now() + Duration::from_micros(150) + Duration::from_nanos(100 * at);
            blocking::arm(Some(deadline), at);
            let ev = run(Some(deadline));
            let (after, expired) = (blocking::after(), blocking::expired());
            blocking::arm(None, u64::MAX);
            execs += 1;
            let ev = match ev {
                Ok(e) => e,
                Err(p) => return Verdict::Fail(format!("{} with a real deadline passing at comparison {} of {}: {}", name, at, total, p)),
            };
            if let Err(msg) = validate_raw(&ev, c.old_r(), c.new_r(), &eq) {
                return Verdict::Fail(format!("{} with a real deadline passing at comparison {} of {}: stream {:?}: {}", name, at, total, ev, msg));
            }
            if n + m > 0 {
                obs.metric("real deadline passing in mid-run: later comparisons / (N+M)", after as f64 / (n + m) as f64);
            }
            if after > bound_mid {
                return Verdict::Fail(format!(
                    "{}: {} element comparisons after a real deadline had passed in mid-run (at comparison {} of {}), more than the bound {} = {}*(N+M)+16 plus, for Myers / Patience, the rest of one search round (N={}, M={}, D={})",
                    name, after, at, total, bound_mid, REAL_MID_FACTOR, n, m, d_exact
                ));
            }
            obs.class_if(expired && after > 0, "real clock: expiry in mid-run, work went on");
        }
    }
    match raw_cnt(c, &oc, &nc, Some(far_future())) {
        Ok(ev) if ev == e0 => {}
        Ok(ev) => return Verdict::Fail(format!("{}: real clock with a deadline one hour ahead gives {:?}, no deadline gives {:?}", name, ev, e0)),
        Err(p) => return Verdict::Fail(format!("{} with a real far deadline: {}", name, p)),
    }
    execs += 1;

    obs.executions = execs;
    obs.nontrivial = t >= 2 && differs;
    obs.class(name);
    obs.class_if(t == 0, "no probe at all");
    obs.class_if(t > 64, "more than 64 probes (expiry indices sampled)");
    obs.class_if(t >= 1 && t <= 64, "all expiry indices enumerated");
    obs.class_if(differs, "expiry changes the result");
    obs.class_if(!c.is_full(), "sub-range");
    Verdict::Pass
}

/// Patience anchor/gap family: unique markers in the same order on both sides, unrelated gaps,
/// unmatched unique items inside some gaps (they force probes in the outer Myers run).
fn anchor_gap(gap: usize) -> BoxedStrategy<(Vec<u32>, Vec<u32>)> {
    let g = move || vec(0u32..3, gap / 3..=gap);
    vec((g(), g(), 0u8..4), 4..=9)
        .prop_map(|gaps| {
            let mut a = vec![];
            let mut b = vec![];
            for (i, (ga, gb, fl)) in gaps.into_iter().enumerate() {
                let mid_a = ga.len() / 2;
                let mid_b = gb.len() / 2;
                a.extend_from_slice(&ga[..mid_a]);
                b.extend_from_slice(&gb[..mid_b]);
                if fl & 1 == 1 {
                    a.push(2000 + i as u32);
                }
                if fl & 2 == 2 {
                    b.push(3000 + i as u32);
                }
                a.extend_from_slice(&ga[mid_a..]);
                b.extend_from_slice(&gb[mid_b..]);
                a.push(1000 + i as u32);
                b.push(1000 + i as u32);
            }
            (a, b)
        })
        .boxed()
}

fn strat(tier: Tier) -> BoxedStrategy<Case> {
    let big = tier.pick(150usize, 400);
    let pair = prop_oneof![
        8 => seq_pair(30),
        // unrelated sequences over small alphabets: many probes
        2 => (2u32..7, vec(0u32..64, big / 3..=big), vec(0u32..64, big / 3..=big)).prop_map(|(k, a, b)| (
            a.into_iter().map(|x| x % k).collect::<Vec<u32>>(),
            b.into_iter().map(|x| x % k).collect::<Vec<u32>>()
        )),
        2 => anchor_gap(tier.pick(30, 70)),
    ];
    let never_only = (prop_oneof![3 => Just(2u8), 1 => Just(0u8), 1 => Just(1u8)], 2u32..9, vec(0u32..64, 257..=400), vec((0u8..3, any::<u16>(), 0u32..64), 20..=90), any::<bool>()).prop_map(|(alg, k, a, es, unrelated)| {
        let a: Vec<u32> = a.into_iter().map(|x| x % k).collect();
        let mut b: Vec<u32> = if unrelated { a.iter().rev().map(|x| (x * 3 + 1) % k).collect() } else { a.clone() };
        for (kind, at, val) in es {
            let n = b.len();
            let p = pos(at, n - 1);
            match kind {
                0 => {
                    b.remove(p);
                }
                1 => b.insert(p, val % k),
                _ => b[p] = val % k,
            }
        }
        Case { seq: SeqCase { mode: 9, ..SeqCase::full(alg, a, b) }, ks: vec![] }
    });
    let main = (0u8..3, pair, raw_ranges(true), 0u8..2, vec(any::<u16>(), 16))
        .prop_map(|(alg, (old, new), rr, mode, ks)| {
            // LCS keeps a BTreeMap table: cap its inputs
            let (old, new) = if alg == 2 && (old.len() > 60 || new.len() > 60) {
                (old[..60.min(old.len())].to_vec(), new[..60.min(new.len())].to_vec())
            } else {
                (old, new)
            };
            let (or, nr) = ranges_from((rr.0 || old.len() > 100, rr.1, rr.2, rr.3, rr.4), old.len(), new.len());
            Case { seq: SeqCase { alg, old, new, or, nr, mode, k: None }, ks }
        });
    prop_oneof![40 => main, 1 => never_only].boxed()
}

fn enum_small(tier: Tier, f: &mut dyn FnMut(Case) -> bool) {
    let seqs = all_seqs(2, tier.pick(5, 6));
    for a in &seqs {
        for b in &seqs {
            for alg in 0..3u8 {
                let c = SeqCase::full(alg, a.clone(), b.clone());
                if !f(Case { seq: c, ks: vec![] }) {
                    return;
                }
            }
        }
    }
}

fn enum_huge(_tier: Tier, f: &mut dyn FnMut(Case) -> bool) {
    // 9000 x 9000 unrelated items between a common head and tail, full range and a sub-range
    for alg in 0..3u8 {
        let head = lcg_seq(40, 50, 9);
        let tail = lcg_seq(41, 70, 9);
        let mut a = head.clone();
        a.extend(lcg_seq(42, 9000, 5).into_iter().map(|x| x + 100));
        a.extend(tail.iter());
        let mut b = head.clone();
        b.extend(lcg_seq(43, 9000, 5).into_iter().map(|x| x + 200));
        b.extend(tail.iter());
        for sub in [false, true] {
            let mut c = SeqCase::full(alg, a.clone(), b.clone());
            if sub {
                c.or = (7, a.len());
                c.nr = (7, b.len() - 3);
            }
            c.mode = 8;
            if !f(Case { seq: c, ks: vec![] }) {
                return;
            }
        }
    }
}

fn enum_deep(_tier: Tier, f: &mut dyn FnMut(Case) -> bool) {
    // shortest scripts of several thousand edits (more than 1024 and 2048 search rounds): a deadline
    // that never expires must not change them
    for alg in 0..2u8 {
        let cases = [
            (lcg_seq(61, 2200, 40), lcg_seq(62, 2200, 40)),
            ((0..1500u32).collect::<Vec<u32>>(), (5000..6500u32).collect::<Vec<u32>>()),
            (lcg_seq(63, 3000, 7), lcg_seq(64, 700, 7).into_iter().map(|x| x + 3).collect()),
        ];
        for (a, b) in cases {
            let mut c = SeqCase::full(alg, a, b);
            c.mode = 9;
            if !f(Case { seq: c, ks: vec![] }) {
                return;
            }
        }
    }
}

fn enum_wall(_tier: Tier, f: &mut dyn FnMut(Case) -> bool) {
    // three tiny inputs whose exact diff differs from the expired-deadline approximation
    for alg in 0..3u8 {
        let mut c = SeqCase::full(alg, vec![1, 2, 3, 4, 5, 6], vec![1, 9, 3, 4, 6, 7]);
        c.mode = 7;
        if !f(Case { seq: c, ks: vec![] }) {
            return;
        }
        // an input whose exact diff differs from every early-expiry approximation
        let n = if alg == 2 { 60 } else { 300 };
        let mut c = SeqCase::full(alg, lcg_seq(51, n, 4), lcg_seq(52, n, 4));
        c.mode = 7;
        if !f(Case { seq: c, ks: vec![] }) {
            return;
        }
    }
}

impl Prop for C07 {
    type Case = Case;
    const ID: &'static str = "C07";
    const LEVEL: &'static str = "fault_enumeration";
    fn rule() -> String {
        "cases = (algorithm, old, new, ranges, entry point in {algorithms::diff_deadline, diff_slices_deadline}); for each case the number of deadline probes T is learnt with a never-expiring virtual clock and then EVERY expiry index k in 0..=T is executed (T <= 64) or {0..7, T-1, T} plus 16 generated indices (T > 64) ('executions' counts runs). Families: the shared small mixture, unrelated 50-400 item sequences over alphabets 2-6 (many probes), and the Patience anchor/gap family. Oracle per k: C01 stream validator, finish once and last, C02+C09 oracles on capture_diff_deadline and exact carried positions of its stand-alone insertions / deletions (mismatches that the swap repair removes are left to C11/C05), at most 4*(N+M)+16 element comparisons after expiry (counting PartialEq; through capture_diff_deadline, whose clean-up compares items too, at most 8*(N+M)+16; measured maxima under metrics_max), k >= T and never-expiring clock => identical to no deadline; plumbing: TextDiffConfig::deadline / ::timeout / capture_diff_slices_deadline give valid scripts at every k, the ops of capture_diff_deadline when the clock expires at the first probe or never, and consult the clock whenever the direct call does; real clock: a run whose deadline passed before the call makes at most 8*(N+M)+16 comparisons in total (this sees a probe that is consulted too rarely, which probe-indexed time cannot), deadline in the past == expiry at probe 0, a real deadline 150 us ahead that passes in mid-run (an item whose == waits for it at comparison 1, a third, a half and a generated point of the run) leaves a valid script and a bounded number of later comparisons (LCS: 8*(N+M)+16; Myers: that plus the rest of one search round, (D+4)*(min(N,M)+1); Patience: plus (N+M+4)*(min(N,M)+1)), deadline one hour ahead == no deadline, a builder on which deadline(past) is set last (alone, after timeout(1 h), after deadline(far)) == expired; wall-clock stage: unrepresentably large timeouts == no deadline (no panic), and a timeout counts from the start of the diff (a builder configured 1.7 s before use with timeout(1.5 s) still gives the exact diff of a tiny input; a mismatch must repeat 3 times). 1 random case in 40 is an expensive input (257-400 items; LCS tables of 66 000-160 000 cells) on which only never-expiring deadlines are executed (virtual, real, capture_diff_deadline, TextDiffConfig::deadline/timeout) and compared with no deadline. Non-trivial = T >= 2 and some expiry index changes the result; distinct = distinct serialized case.".into()
    }
    fn assumptions() -> Vec<String> {
        vec![
            "time is probe-indexed (virtual clock hook): a change that merely probes less often is only observable through the real-clock runs (deadline already passed: total comparison budget; deadline passing in mid-run: comparisons made afterwards)".into(),
            "the real-clock mid-run bound is linear for LCS (rest of one row + flush) and adds the worst case of one search round for Myers / Patience, which is not linear in N+M; it therefore decides 'expiry is noticed within one step', and is tight only for LCS and for near-identical inputs".into(),
            "the promptness constant 4 has >= 4x head-room over the measured maximum (about 0.8*(N+M))".into(),
            "wasm32 behaviour is out of scope".into(),
        ]
    }
    fn stages(tier: Tier) -> Vec<Stage<Case>> {
        vec![
            Stage {
                name: "enum-small",
                kind: StageKind::Enumerate {
                    scope: format!("all (old,new) over {{0,1}} with lengths <= {} x 3 algorithms x every expiry index", tier.pick(5, 6)),
                    exhaustive: true,
                    gen: enum_small,
                },
            },
            Stage {
                name: "huge-expired",
                kind: StageKind::Enumerate {
                    scope: "9120-item inputs (9000 unrelated items between a common head and tail; an LCS table would have 81 M cells) x 3 algorithms x {full range, sub-range}: expiry at the first probe only (virtual and real clock)".into(),
                    exhaustive: true,
                    gen: enum_huge,
                },
            },
            Stage {
                name: "deep-never",
                kind: StageKind::Enumerate {
                    scope: "6 fixed inputs (Myers, Patience) whose shortest script has thousands of edits (2200 x 2200 items over 40 symbols, 1500 x 1500 distinct unrelated items, 3000 x 700 over 7 symbols): never-expiring deadlines (virtual, real, capture_diff_deadline, TextDiffConfig::deadline/timeout) == no deadline".into(),
                    exhaustive: true,
                    gen: enum_deep,
                },
            },
            Stage {
                name: "wall-clock",
                kind: StageKind::Enumerate {
                    scope: "6 fixed inputs (a tiny and a 300-item (LCS: 60-item) one per algorithm): timeout(Duration::MAX | u64::MAX s | 2^62 s) == no deadline; timeout(0) and timeout(1 ns) give the approximation of an expiry at one of the first four probes (checked where the exact diff differs from all of them); a builder configured with timeout(1.5 s) and used 1.7 s later == no deadline; a builder configured with deadline(now + 0.3 s) and used 0.5 s later == expired".into(),
                    exhaustive: true,
                    gen: enum_wall,
                },
            },
            Stage { name: "random", kind: StageKind::Random { strategy: strat, cases: tier.pick(20_000, 120_000) } },
        ]
    }
    fn check(case: &Case, obs: &mut Obs) -> Verdict {
        check_case(case, obs)
    }
}
