//! C09 — captured diffs are in canonical normal form.

use super::common::*;
use crate::core::*;
use crate::gen::*;
use crate::oracle::*;
use super::c10::{self, ScriptCase};
use proptest::prelude::*;
use serde::{Deserialize, Serialize};
use similar::algorithms::{Capture, Compact, DiffHook, Replace};
use similar::DiffOp;

pub struct C09;

/// a diff computed by one of the algorithms, or an arbitrary valid script (C10's generator)
/// pushed through Compact + Replace
#[derive(Clone, Debug, Serialize, Deserialize)]
#[serde(untagged)]
pub enum Case {
    Seq(SeqCase),
    Script(ScriptCase),
    Text(TextCase),
}

/// TextDiff::ops (five tokenizers, str and [u8]) is a captured op list too
fn check_text(c: &TextCase, obs: &mut Obs) -> Verdict {
    fn nf<T: similar::DiffableStr + ?Sized>(d: &similar::TextDiff<T>) -> Result<usize, String> {
        let (o, n) = (d.old_slices(), d.new_slices());
        normal_form(d.ops(), &|i, j| o.get(i).is_some() && o.get(i) == n.get(j)).map_err(|m| format!("TextDiff::ops {:?}: {}", d.ops(), m))?;
        Ok(d.ops().len())
    }
    let cfg = config(c.alg);
    let r = if c.use_bytes() { guard(|| nf(&diff_bytes(&cfg, c.tok, &c.old.0, &c.new.0))) } else { guard(|| nf(&diff_str(&cfg, c.tok, c.old.as_str().unwrap(), c.new.as_str().unwrap()))) };
    obs.class("TextDiff::ops");
    obs.class(TOKENIZERS[(c.tok % 5) as usize]);
    match r {
        Ok(Ok(n)) => {
            obs.nontrivial = n >= 3;
            Verdict::Pass
        }
        Ok(Err(m)) => Verdict::Fail(format!("{} {} {}: {}", alg_name(c.alg), TOKENIZERS[(c.tok % 5) as usize], if c.use_bytes() { "[u8]" } else { "str" }, m)),
        Err(p) => Verdict::Fail(format!("text diff: {}", p)),
    }
}

fn check_script(c: &ScriptCase, obs: &mut Obs) -> Verdict {
    if let Err(m) = c10::script_is_valid(c) {
        panic!("generator self-test failed: {} for {:?}", m, c);
    }
    let (old, new) = (&c.old, &c.new);
    let eq = |i: usize, j: usize| old[i] == new[j];
    let out = guard(|| {
        let mut h = Compact::new(Replace::new(Capture::new()), &old[..], &new[..]);
        c10::drive(&mut h, &c.script).unwrap();
        h.finish().unwrap();
        h.into_inner().into_inner().into_ops()
    });
    let ops = match out {
        Ok(o) => o,
        Err(p) => return Verdict::Fail(format!("Compact<Replace<Capture>> on script {:?}: {}", c.script, p)),
    };
    if let Err(m) = normal_form(&ops, &eq) {
        return Verdict::Fail(format!("script {:?} for {:?} -> {:?} through Compact<Replace<Capture>> gives {:?}: {}", c.script, old, new, ops, m));
    }
    obs.nontrivial = ops.len() >= 3;
    obs.class("arbitrary valid script through Compact+Replace");
    obs.class_if(ops.iter().any(|o| matches!(o, DiffOp::Replace { .. })), "has Replace");
    Verdict::Pass
}

fn check_case(c: &SeqCase, obs: &mut Obs) -> Verdict {
    let k = match c.k {
        None => None,
        Some(raw) => match probe_count(c) {
            Ok(t) => Some(eff_k(raw, t)),
            Err(p) => return Verdict::Fail(format!("capture with a never-expiring deadline: {}", p)),
        },
    };
    let ops = match capture(c, k) {
        Ok(o) => o,
        Err(p) => return Verdict::Fail(format!("capture: {}", p)),
    };
    let (old, new) = (&c.old, &c.new);
    let eq = |i: usize, j: usize| old.get(i).is_some() && old.get(i) == new.get(j);
    if let Err(m) = normal_form(&ops, &eq) {
        return Verdict::Fail(format!("{} mode {} k {:?}: ops {:?}: {}", alg_name(c.alg), c.mode, k, ops, m));
    }
    // did an insertion slide? compare with the raw stream's insert positions
    let slid = match raw_events(c, k) {
        Ok(ev) => {
            let raw_ins: Vec<usize> = ev.iter().filter_map(|e| if let Ev::Insert(_, n, _) = e { Some(*n) } else { None }).collect();
            ops.iter().any(|o| matches!(o, DiffOp::Insert { new_index, .. } if !raw_ins.contains(new_index)))
        }
        Err(_) => false,
    };
    obs.nontrivial = ops.len() >= 3;
    obs.class(alg_name(c.alg));
    obs.class_if(slid, "an insertion was moved by compaction");
    obs.class_if(k.is_some(), "deadline (virtual clock)");
    obs.class_if(!c.is_full(), "sub-range");
    obs.class_if(c.old.len() + c.new.len() > 2000, "more than 2000 items");
    obs.class_if(c.or.0 == c.or.1 && c.nr.0 == c.nr.1, "both ranges empty");
    obs.class_if(ops.iter().any(|o| matches!(o, DiffOp::Replace { .. })), "has Replace");
    Verdict::Pass
}

fn strat(tier: Tier) -> BoxedStrategy<Case> {
    prop_oneof![
        400 => seq_case_k(tier.pick(100, 300), true, 3, true).prop_map(Case::Seq),
        2 => big_seq_case(tier).prop_map(Case::Seq),
        100 => c10::strat(tier).prop_map(|mut c| {
            c.stack = 2;
            Case::Script(c)
        }),
        60 => text_case_mix(tier.pick(120, 160)).prop_map(Case::Text),
        10 => big_line_case(tier.pick(130, 300)).prop_map(Case::Text),
    ]
    .boxed()
}

fn enum_scripts(tier: Tier, f: &mut dyn FnMut(Case) -> bool) {
    c10::enum_scripts(tier, &mut |c: ScriptCase| if c.stack == 2 { f(Case::Script(c)) } else { true });
}

fn enum_small(tier: Tier, f: &mut dyn FnMut(Case) -> bool) {
    let seqs = all_seqs(2, tier.pick(6, 7));
    for a in &seqs {
        for b in &seqs {
            for alg in 0..3u8 {
                for k in [None, Some(0u64), Some(1)] {
                    let mut c = SeqCase::full(alg, a.clone(), b.clone());
                    c.k = k;
                    if !f(Case::Seq(c)) {
                        return;
                    }
                }
            }
        }
    }
}

impl Prop for C09 {
    type Case = Case;
    const ID: &'static str = "C09";
    fn rule() -> String {
        "cases = (algorithm, old, new, ranges, capture entry point, deadline none | virtual clock expiring at probe k); enumeration of all pairs over {0,1} (repeats next to every edit) x {none, k=0, k=1} plus proptest mixture, plus (1 case in ~200 each) sequences of 1200-2500/5000 items with 300-900 scattered edits (thousands of raw ops) and single edits next to periodic runs of 2200-5200/9000 items (an insertion slides thousands of positions). Oracle: Equal/non-Equal strictly alternate, no empty op or empty Replace side, every Insert followed by an Equal has new[ins.new_index] != old[eq.old_index]. Non-trivial = at least 3 ops; distinct = distinct serialized case. about 1 random case in 10 is a TEXT diff (TextDiff::ops over the five tokenizers, str and [u8], below and above 100 tokens); 1 random case in 6 and a second enumeration stage are ARBITRARY VALID SCRIPTS (C10's generator: run splitting, insert-before-delete, non-minimal scripts; all scripts of all pairs over {0,1} up to length 3) pushed through Compact<Replace<Capture>> and judged by the same normal-form oracle.".into()
    }
    fn assumptions() -> Vec<String> {
        vec!["expiry placed by the virtual clock hook".into()]
    }
    fn stages(tier: Tier) -> Vec<Stage<Case>> {
        vec![
            Stage {
                name: "enum-small",
                kind: StageKind::Enumerate {
                    scope: format!("all (old,new) over {{0,1}} with lengths <= {} x 3 algorithms x deadline in {{none, k=0, k=1}}", tier.pick(6, 7)),
                    exhaustive: true,
                    gen: enum_small,
                },
            },
            Stage {
                name: "enum-all-scripts",
                kind: StageKind::Enumerate {
                    scope: "all valid scripts (every run length, every interleaving) of all (old,new) over {0,1} with lengths <= 3, pushed through Compact<Replace<Capture>>".into(),
                    exhaustive: true,
                    gen: enum_scripts,
                },
            },
            Stage { name: "random", kind: StageKind::Random { strategy: strat, cases: tier.pick(1_200_000, 7_000_000) } },
        ]
    }
    fn check(case: &Case, obs: &mut Obs) -> Verdict {
        match case {
            Case::Seq(c) => check_case(c, obs),
            Case::Script(c) => check_script(c, obs),
            Case::Text(c) => check_text(c, obs),
        }
    }
}
