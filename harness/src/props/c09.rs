//! C09 — captured diffs are in canonical normal form.

use super::common::*;
use crate::core::*;
use crate::gen::*;
use crate::oracle::*;
use proptest::prelude::*;
use similar::DiffOp;

pub struct C09;

fn check_case(c: &SeqCase, obs: &mut Obs) -> Verdict {
    let k = match c.k {
        None => None,
        Some(raw) => match probe_count(c) {
            Ok(t) => Some(eff_k(raw, t)),
            Err(p) => return Verdict::Fail(format!("capture with a never-expiring deadline: {}", p)),
        },
    };
    let ops = match capture(c, k) {
        Ok(o) => o,
        Err(p) => return Verdict::Fail(format!("capture: {}", p)),
    };
    let (old, new) = (&c.old, &c.new);
    let eq = |i: usize, j: usize| old.get(i).is_some() && old.get(i) == new.get(j);
    if let Err(m) = normal_form(&ops, &eq) {
        return Verdict::Fail(format!("{} mode {} k {:?}: ops {:?}: {}", alg_name(c.alg), c.mode, k, ops, m));
    }
    // did an insertion slide? compare with the raw stream's insert positions
    let slid = match raw_events(c, k) {
        Ok(ev) => {
            let raw_ins: Vec<usize> = ev.iter().filter_map(|e| if let Ev::Insert(_, n, _) = e { Some(*n) } else { None }).collect();
            ops.iter().any(|o| matches!(o, DiffOp::Insert { new_index, .. } if !raw_ins.contains(new_index)))
        }
        Err(_) => false,
    };
    obs.nontrivial = ops.len() >= 3;
    obs.class(alg_name(c.alg));
    obs.class_if(slid, "an insertion was moved by compaction");
    obs.class_if(k.is_some(), "deadline (virtual clock)");
    obs.class_if(!c.is_full(), "sub-range");
    obs.class_if(c.old.len() + c.new.len() > 2000, "more than 2000 items");
    obs.class_if(c.or.0 == c.or.1 && c.nr.0 == c.nr.1, "both ranges empty");
    obs.class_if(ops.iter().any(|o| matches!(o, DiffOp::Replace { .. })), "has Replace");
    Verdict::Pass
}

fn strat(tier: Tier) -> BoxedStrategy<SeqCase> {
    prop_oneof![
        400 => seq_case_k(tier.pick(100, 300), true, 3, true),
        2 => big_seq_case(tier),
    ]
    .boxed()
}

fn enum_small(tier: Tier, f: &mut dyn FnMut(SeqCase) -> bool) {
    let seqs = all_seqs(2, tier.pick(6, 7));
    for a in &seqs {
        for b in &seqs {
            for alg in 0..3u8 {
                for k in [None, Some(0u64), Some(1)] {
                    let mut c = SeqCase::full(alg, a.clone(), b.clone());
                    c.k = k;
                    if !f(c) {
                        return;
                    }
                }
            }
        }
    }
}

impl Prop for C09 {
    type Case = SeqCase;
    const ID: &'static str = "C09";
    fn rule() -> String {
        "cases = (algorithm, old, new, ranges, capture entry point, deadline none | virtual clock expiring at probe k); enumeration of all pairs over {0,1} (repeats next to every edit) x {none, k=0, k=1} plus proptest mixture, plus (1 case in ~200 each) sequences of 1200-2500/5000 items with 300-900 scattered edits (thousands of raw ops) and single edits next to periodic runs of 2200-5200/9000 items (an insertion slides thousands of positions). Oracle: Equal/non-Equal strictly alternate, no empty op or empty Replace side, every Insert followed by an Equal has new[ins.new_index] != old[eq.old_index]. Non-trivial = at least 3 ops; distinct = distinct serialized case. (C10 additionally pushes arbitrary valid scripts through Compact+Replace and applies the same normal-form oracle.)".into()
    }
    fn assumptions() -> Vec<String> {
        vec!["expiry placed by the virtual clock hook".into()]
    }
    fn stages(tier: Tier) -> Vec<Stage<SeqCase>> {
        vec![
            Stage {
                name: "enum-small",
                kind: StageKind::Enumerate {
                    scope: format!("all (old,new) over {{0,1}} with lengths <= {} x 3 algorithms x deadline in {{none, k=0, k=1}}", tier.pick(6, 7)),
                    exhaustive: true,
                    gen: enum_small,
                },
            },
            Stage { name: "random", kind: StageKind::Random { strategy: strat, cases: tier.pick(1_000_000, 6_000_000) } },
        ]
    }
    fn check(case: &SeqCase, obs: &mut Obs) -> Verdict {
        check_case(case, obs)
    }
}
