//! C06 — tokenizers are lossless partitions with the documented token shape.

use crate::core::*;
use crate::gen::*;
use proptest::prelude::*;
use serde::{Deserialize, Serialize};
use similar::DiffableStr;

pub struct C06;

#[derive(Clone, Debug, PartialEq, Eq, Hash, Serialize, Deserialize)]
pub struct Case {
    pub text: BStr,
}

/// (start, end, is_whitespace, is_valid_char) for every decoded unit of a byte string:
/// a unit is one valid scalar value or one invalid byte
fn units(b: &[u8]) -> Vec<(usize, usize, bool)> {
    let mut v = vec![];
    let mut i = 0;
    while i < b.len() {
        match std::str::from_utf8(&b[i..]) {
            Ok(s) => {
                for (o, ch) in s.char_indices() {
                    v.push((i + o, i + o + ch.len_utf8(), ch.is_whitespace()));
                }
                break;
            }
            Err(e) => {
                let s = std::str::from_utf8(&b[i..i + e.valid_up_to()]).unwrap();
                for (o, ch) in s.char_indices() {
                    v.push((i + o, i + o + ch.len_utf8(), ch.is_whitespace()));
                }
                i += e.valid_up_to();
                let bad = e.error_len().unwrap_or(b.len() - i);
                // every invalid byte is a non-whitespace unit
                for t in 0..bad {
                    v.push((i + t, i + t + 1, false));
                }
                i += bad;
            }
        }
    }
    v
}

fn ref_lines(b: &[u8]) -> Vec<&[u8]> {
    let mut out = vec![];
    let mut start = 0;
    let mut i = 0;
    while i < b.len() {
        if b[i] == b'\n' {
            out.push(&b[start..=i]);
            start = i + 1;
            i += 1;
        } else if b[i] == b'\r' {
            if b.get(i + 1) == Some(&b'\n') {
                out.push(&b[start..=i + 1]);
                start = i + 2;
                i += 2;
            } else {
                out.push(&b[start..=i]);
                start = i + 1;
                i += 1;
            }
        } else {
            i += 1;
        }
    }
    if start < b.len() {
        out.push(&b[start..]);
    }
    out
}

fn ref_runs<'a>(b: &'a [u8], class: &dyn Fn(usize) -> bool) -> Vec<&'a [u8]> {
    let mut out = vec![];
    let mut start = 0;
    for i in 1..=b.len() {
        if i == b.len() || class(i) != class(start) {
            if i > start {
                out.push(&b[start..i]);
            }
            start = i;
        }
    }
    out
}

fn ref_words(b: &[u8]) -> Vec<&[u8]> {
    let us = units(b);
    let mut ws = vec![false; b.len()];
    for (s, e, w) in &us {
        for x in &mut ws[*s..*e] {
            *x = *w;
        }
    }
    ref_runs(b, &|i| ws[i])
}

fn ref_lines_and_newlines(b: &[u8]) -> Vec<&[u8]> {
    ref_runs(b, &|i| b[i] == b'\r' || b[i] == b'\n')
}

/// generic partition checks: non-empty, consecutive sub-slices of the input, lossless
fn partition(name: &str, input: &[u8], toks: &[&[u8]]) -> Result<(), String> {
    let base = input.as_ptr() as usize;
    let mut off = 0usize;
    for (i, t) in toks.iter().enumerate() {
        if t.is_empty() {
            return Err(format!("{}: token {} is empty", name, i));
        }
        let p = t.as_ptr() as usize;
        if p != base + off {
            // not a slice of the input at the expected position; still compare content for the message
            return Err(format!(
                "{}: token {} ({:?}) is not the sub-slice of the input at byte {} (tokens {:?})",
                name, i, escape_bytes(t), off, toks.iter().map(|t| escape_bytes(t)).collect::<Vec<_>>()
            ));
        }
        off += t.len();
    }
    if off != input.len() {
        return Err(format!("{}: tokens cover {} of {} bytes", name, off, input.len()));
    }
    Ok(())
}

fn show(toks: &[&[u8]]) -> Vec<String> {
    toks.iter().map(|t| escape_bytes(t)).collect()
}

fn check_tokens(kind: &str, input: &[u8], lines: &[&[u8]], lnl: &[&[u8]], words: &[&[u8]], chars: &[&[u8]], uwords: &[&[u8]], graph: &[&[u8]]) -> Result<(), String> {
    partition(&format!("{} tokenize_lines", kind), input, lines)?;
    partition(&format!("{} tokenize_lines_and_newlines", kind), input, lnl)?;
    partition(&format!("{} tokenize_words", kind), input, words)?;
    partition(&format!("{} tokenize_chars", kind), input, chars)?;
    partition(&format!("{} tokenize_unicode_words", kind), input, uwords)?;
    partition(&format!("{} tokenize_graphemes", kind), input, graph)?;
    let rl = ref_lines(input);
    if lines != &rl[..] {
        return Err(format!("{} tokenize_lines = {:?}, expected {:?}", kind, show(lines), show(&rl)));
    }
    // shape clauses stated directly (redundant with the reference, kept as an independent reading)
    for (i, l) in lines.iter().enumerate() {
        let body_end = if l.ends_with(b"\r\n") { l.len() - 2 } else if l.ends_with(b"\n") || l.ends_with(b"\r") { l.len() - 1 } else { l.len() };
        if l[..body_end].iter().any(|c| *c == b'\n' || *c == b'\r') {
            return Err(format!("{} tokenize_lines: line {} {:?} contains a line break before its end", kind, i, escape_bytes(l)));
        }
        if body_end == l.len() && i + 1 != lines.len() {
            return Err(format!("{} tokenize_lines: line {} lacks a terminator but is not the last", kind, i));
        }
    }
    let rw = ref_words(input);
    if words != &rw[..] {
        return Err(format!("{} tokenize_words = {:?}, expected maximal whitespace/non-whitespace runs {:?}", kind, show(words), show(&rw)));
    }
    let rn = ref_lines_and_newlines(input);
    if lnl != &rn[..] {
        return Err(format!("{} tokenize_lines_and_newlines = {:?}, expected {:?}", kind, show(lnl), show(&rn)));
    }
    for (i, c) in chars.iter().enumerate() {
        match std::str::from_utf8(c) {
            Ok(s) => {
                if s.chars().count() != 1 {
                    return Err(format!("{} tokenize_chars: token {} {:?} is not a single scalar value", kind, i, escape_bytes(c)));
                }
            }
            Err(_) => {
                if c.len() > 3 || c.iter().any(|b| *b < 0x80) {
                    return Err(format!("{} tokenize_chars: token {} {:?} is neither one scalar value nor one invalid sequence", kind, i, escape_bytes(c)));
                }
            }
        }
    }
    Ok(())
}

fn accessors<T: DiffableStr + ?Sized>(kind: &str, t: &T, b: &[u8]) -> Result<(), String> {
    if t.as_bytes() != b {
        return Err(format!("{} as_bytes differs from the input", kind));
    }
    if t.len() != b.len() {
        return Err(format!("{} len() = {}, byte length {}", kind, t.len(), b.len()));
    }
    if t.is_empty() != b.is_empty() {
        return Err(format!("{} is_empty() wrong", kind));
    }
    let want_nl = matches!(b.last(), Some(b'\r') | Some(b'\n'));
    if t.ends_with_newline() != want_nl {
        return Err(format!("{} ends_with_newline() = {}, last byte says {}", kind, t.ends_with_newline(), want_nl));
    }
    if t.as_str() != std::str::from_utf8(b).ok() {
        return Err(format!("{} as_str() = {:?}", kind, t.as_str()));
    }
    if t.to_string_lossy() != String::from_utf8_lossy(b) {
        return Err(format!("{} to_string_lossy() = {:?}", kind, t.to_string_lossy()));
    }
    // slice() over token boundaries
    let mut off = 0;
    for tok in t.tokenize_chars() {
        let l = tok.as_bytes().len();
        if t.slice(off..off + l).as_bytes() != &b[off..off + l] {
            return Err(format!("{} slice({}..{}) wrong", kind, off, off + l));
        }
        off += l;
    }
    if t.slice(0..b.len()).as_bytes() != b {
        return Err(format!("{} slice(0..len) wrong", kind));
    }
    Ok(())
}

fn check_case(c: &Case, obs: &mut Obs) -> Verdict {
    let b: &[u8] = &c.text.0;
    let r = guard(|| -> Result<(usize, bool), String> {
        let bl = b.tokenize_lines();
        let bn = b.tokenize_lines_and_newlines();
        let bw = b.tokenize_words();
        let bc = b.tokenize_chars();
        let bu = b.tokenize_unicode_words();
        let bg = b.tokenize_graphemes();
        check_tokens("[u8]", b, &bl, &bn, &bw, &bc, &bu, &bg)?;
        accessors("[u8]", b, b)?;
        let mut ntok = bw.len().max(bl.len());
        let mut cr_lf = false;
        if let Ok(s) = std::str::from_utf8(b) {
            fn to_b<'a>(v: Vec<&'a str>) -> Vec<&'a [u8]> {
                v.into_iter().map(|x| x.as_bytes()).collect()
            }
            let sl = to_b(s.tokenize_lines());
            let sn = to_b(s.tokenize_lines_and_newlines());
            let sw = to_b(s.tokenize_words());
            let sc = to_b(s.tokenize_chars());
            let su = to_b(s.tokenize_unicode_words());
            let sg = to_b(s.tokenize_graphemes());
            check_tokens("str", b, &sl, &sn, &sw, &sc, &su, &sg)?;
            accessors("str", s, b)?;
            for (name, x, y) in [("lines", &sl, &bl), ("lines_and_newlines", &sn, &bn), ("words", &sw, &bw), ("chars", &sc, &bc)] {
                if x != y {
                    return Err(format!("tokenize_{}: str gives {:?}, [u8] gives {:?}", name, show(x), show(y)));
                }
            }
            for ch in &sc {
                if std::str::from_utf8(ch).map_or(true, |s| s.chars().count() != 1) {
                    return Err("str tokenize_chars: token is not one scalar value".into());
                }
            }
            ntok = ntok.max(sc.len());
        }
        // a String buffer that was tokenized with OTHER content of the same length and then refilled in
        // place (same address, same length) tokenizes like a fresh string
        if let Ok(s) = std::str::from_utf8(b) {
            if s.len() >= 2 {
                let mut other: Vec<&str> = s.split_inclusive(|ch| ch == '\n' || ch == ' ').collect();
                other.reverse();
                let other = other.concat();
                if other.len() == s.len() {
                    let mut buf = String::with_capacity(s.len());
                    buf.push_str(&other);
                    let _ = (buf.tokenize_lines().len(), buf.tokenize_words().len(), buf.tokenize_chars().len(), buf.tokenize_lines_and_newlines().len());
                    buf.clear();
                    buf.push_str(s);
                    let again: [Vec<&str>; 4] = [buf.tokenize_lines(), buf.tokenize_words(), buf.tokenize_chars(), buf.tokenize_lines_and_newlines()];
                    let fresh: [Vec<&str>; 4] = [s.tokenize_lines(), s.tokenize_words(), s.tokenize_chars(), s.tokenize_lines_and_newlines()];
                    if again != fresh {
                        return Err(format!("a String buffer refilled in place (tokenized before with {:?}) tokenizes into {:?}, a fresh string into {:?}", other, again, fresh));
                    }
                }
            }
        }
        for w in b.windows(2) {
            if w == b"\r\n" {
                cr_lf = true;
            }
        }
        Ok((ntok, cr_lf))
    });
    match r {
        Ok(Ok((ntok, cr_lf))) => {
            obs.nontrivial = ntok >= 2;
            let valid = std::str::from_utf8(b).is_ok();
            obs.class_if(!valid, "invalid UTF-8");
            obs.class_if(valid && !b.is_ascii(), "non-ASCII valid UTF-8");
            obs.class_if(cr_lf, "CR LF present");
            obs.class_if(b.contains(&b'\r'), "CR present");
            obs.class_if(b.is_empty(), "empty input");
            Verdict::Pass
        }
        Ok(Err(m)) => Verdict::Fail(format!("input {:?}: {}", c.text, m)),
        Err(p) => Verdict::Fail(format!("input {:?}: {}", c.text, p)),
    }
}

/// every Unicode White_Space code point, their neighbours and zero-width look-alikes that are NOT
/// whitespace, and the same code points shifted into supplementary planes
fn tricky_chars() -> Vec<char> {
    const WS: [u32; 25] = [
        0x09, 0x0a, 0x0b, 0x0c, 0x0d, 0x20, 0x85, 0xa0, 0x1680, 0x2000, 0x2001, 0x2002, 0x2003, 0x2004, 0x2005, 0x2006, 0x2007, 0x2008,
        0x2009, 0x200a, 0x2028, 0x2029, 0x202f, 0x205f, 0x3000,
    ];
    let mut v: Vec<u32> = vec![];
    for w in WS {
        v.extend_from_slice(&[w, w + 1, w.saturating_sub(1)]);
        for plane in [1u32, 2, 3, 14, 16] {
            v.push(plane * 0x10000 + w);
        }
    }
    v.extend_from_slice(&[0x200b, 0x200c, 0x200d, 0x2060, 0xfeff, 0x180e, 0x1c, 0x1d, 0x1e, 0x1f, 0x7f, 0xad, 0xfffd, 0x10ffff, 0xd7ff, 0xe000]);
    v.into_iter().filter_map(char::from_u32).collect()
}

fn strat(tier: Tier) -> BoxedStrategy<Case> {
    let n = tier.pick(14usize, 30);
    let tricky = tricky_chars();
    let nt = tricky.len();
    let piece = move || {
        let tricky = tricky.clone();
        prop_oneof![
            4 => (0usize..nt).prop_map(move |i| tricky[i].to_string().into_bytes()),
            2 => any::<char>().prop_map(|c| c.to_string().into_bytes()),
            4 => (0usize..8).prop_map(|i| atom_bytes(i).to_vec()),
            1 => (0usize..BAD.len()).prop_map(|i| BAD[i].to_vec()),
        ]
    };
    prop_oneof![
        // strings over every whitespace code point, look-alikes, plane-shifted copies, arbitrary chars
        3 => proptest::collection::vec(piece(), 0..=n).prop_map(|v| Case { text: BStr(v.concat()) }),
        // long inputs and long tokens: blocks of hundreds of bytes, terminators near block boundaries
        1 => (proptest::collection::vec((0usize..8, 1usize..400), 1..=8), any::<bool>()).prop_map(|(runs, crlf)| {
            let mut v = vec![];
            for (a, len) in runs {
                for _ in 0..len {
                    v.extend_from_slice(atom_bytes(a));
                }
                v.extend_from_slice(if crlf { b"\r\n" } else { b"\n" });
            }
            Case { text: BStr(v) }
        }),
        // a long uniform stretch (its length straddles a power of two between 32 bytes and 16 KiB:
        // block sizes, sniffing windows, buffer limits) between a short rich head and a short rich tail
        1 => (proptest::collection::vec(piece(), 0..=3), 0usize..6, 5u32..=14, -3i32..=3, proptest::collection::vec(piece(), 0..=5)).prop_map(|(head, filler, k, delta, tail)| {
            let unit: &[u8] = [&b"x\n"[..], b"a", b"ab \n", b"w\r\n", "\u{e9}\n".as_bytes(), b"a b"][filler];
            let target = ((1i64 << k) + delta as i64).max(0) as usize;
            let mut v = head.concat();
            let base = v.len();
            while v.len() - base + unit.len() <= target {
                v.extend_from_slice(unit);
            }
            // pad to the exact target with single bytes so that the tail starts exactly there
            while v.len() - base < target {
                v.push(b'y');
            }
            v.extend(tail.concat());
            Case { text: BStr(v) }
        }),
        3 => atoms(n, false).prop_map(|a| Case { text: BStr(concat_atoms(&a)) }),
        3 => atoms(n, true).prop_map(|a| Case { text: BStr(concat_atoms(&a)) }),
        // raw bytes biased to interesting values
        2 => proptest::collection::vec(prop_oneof![
            3 => prop_oneof![Just(b'a'), Just(b' '), Just(b'\n'), Just(b'\r'), Just(b'\t'), Just(0u8)],
            2 => prop_oneof![Just(0xc2u8), Just(0xa0), Just(0xe2), Just(0x80), Just(0xa8), Just(0xf0), Just(0x9f), Just(0x87), Just(0xa6), Just(0xcc), Just(0x81)],
            1 => any::<u8>(),
        ], 0..=n).prop_map(|v| Case { text: BStr(v) }),
    ]
    .boxed()
}

const CORE: &[&[u8]] = &[
    b"a", b"b", b" ", b"\t", b"\n", b"\r", "\u{a0}".as_bytes(), "\u{2028}".as_bytes(), "e\u{301}".as_bytes(),
    "\u{1F1E6}\u{1F1F9}".as_bytes(), b"\0", b"\x80", b"\xe2\x82",
];

fn enum_strings(tier: Tier, f: &mut dyn FnMut(Case) -> bool) {
    all_atom_strings(CORE, tier.pick(4, 5), &mut |s| f(Case { text: BStr(s) }));
}

impl Prop for C06 {
    type Case = Case;
    const ID: &'static str = "C06";
    fn rule() -> String {
        "cases = one byte string, tokenized by all six tokenizers as [u8] and (when valid UTF-8) as str; enumeration of all strings of <= 4 (thorough 5) atoms over a 13-atom core alphabet {a, b, space, tab, LF, CR, NBSP, U+2028, e+combining acute, flag emoji, NUL, invalid byte 0x80, truncated 3-byte lead}, plus proptest generation from a 43-atom alphabet (+11 invalid UTF-8 fragments), from ALL 25 Unicode White_Space code points with their neighbours, zero-width look-alikes (U+200B, U+FEFF, ...) and copies shifted into supplementary planes, from arbitrary chars, from long runs (tokens of hundreds of bytes, CRLF near block boundaries), from a uniform stretch of 2^k +- 3 bytes (k = 5..14) between a short rich head and tail, and biased raw bytes. Oracle: non-empty tokens that are consecutive sub-slices of the input (pointer arithmetic) covering it; lines == reference splitter (LF, CRLF, lone CR), words == maximal runs by char::is_whitespace (invalid byte = non-whitespace), lines_and_newlines == maximal [CR LF]/other runs, chars = one scalar value (bytes: or one invalid sequence <= 3 non-ASCII bytes); str tokens == [u8] tokens for lines/words/chars/lines_and_newlines on valid UTF-8; accessors agree with the byte view. Non-trivial = at least 2 tokens; distinct = distinct input.".into()
    }
    fn assumptions() -> Vec<String> {
        vec!["unicode words/graphemes are only required to be lossless partitions (the two segmentation crates legitimately differ between str and [u8])".into()]
    }
    fn stages(tier: Tier) -> Vec<Stage<Case>> {
        vec![
            Stage {
                name: "enum-strings",
                kind: StageKind::Enumerate {
                    scope: format!("all strings of <= {} atoms over the 13-atom core alphabet", tier.pick(4, 5)),
                    exhaustive: true,
                    gen: enum_strings,
                },
            },
            Stage { name: "random", kind: StageKind::Random { strategy: strat, cases: tier.pick(1_000_000, 5_000_000) } },
        ]
    }
    fn check(case: &Case, obs: &mut Obs) -> Verdict {
        check_case(case, obs)
    }
}
