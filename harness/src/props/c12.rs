//! C12 — grouping keeps every change once, in order, with exactly n items of context.

use super::common::*;
use crate::core::*;
use crate::gen::*;
use crate::oracle::*;
use proptest::collection::vec;
use proptest::prelude::*;
use serde::{Deserialize, Serialize};
use similar::algorithms::{Capture, Compact, Replace};
use similar::{group_diff_ops, DiffOp};

pub struct C12;

#[derive(Clone, Debug, Serialize, Deserialize)]
pub enum Case {
    /// a synthetic valid alternating op list
    Ops { ops: Vec<SOp>, n: usize },
    /// a real diff grouped through group_diff_ops / Capture::into_grouped_ops
    Real { case: SeqCase, n: usize },
    /// TextDiff::grouped_ops
    Text { case: TextCase, n: usize },
}

fn is_eq(op: &DiffOp) -> bool {
    matches!(op, DiffOp::Equal { .. })
}

/// straightforward reference grouping, written from the statement
pub fn reference_groups(ops: &[DiffOp], n: usize) -> Vec<Vec<DiffOp>> {
    let changes: Vec<usize> = (0..ops.len()).filter(|&i| !is_eq(&ops[i])).collect();
    let mut groups = vec![];
    let mut a = 0;
    while a < changes.len() {
        let mut b = a;
        while b + 1 < changes.len() {
            let sep: usize = (changes[b] + 1..changes[b + 1]).map(|i| ops[i].old_range().len()).sum();
            if sep > n.saturating_mul(2) {
                break;
            }
            b += 1;
        }
        let (first, last) = (changes[a], changes[b]);
        let mut g = vec![];
        if first > 0 {
            if let DiffOp::Equal { old_index, new_index, len } = ops[first - 1] {
                let take = n.min(len);
                if take > 0 {
                    g.push(DiffOp::Equal { old_index: old_index + len - take, new_index: new_index + len - take, len: take });
                }
            }
        }
        g.extend_from_slice(&ops[first..=last]);
        if let Some(DiffOp::Equal { old_index, new_index, len }) = ops.get(last + 1) {
            let take = n.min(*len);
            if take > 0 {
                g.push(DiffOp::Equal { old_index: *old_index, new_index: *new_index, len: take });
            }
        }
        groups.push(g);
        a = b + 1;
    }
    groups
}

/// zero-length Equal ops (the pinned code leaves them at group edges for n = 0) are tolerated, but
/// they must sit where the neighbouring op of their group starts / ends on the side(s) that op consumes
fn empty_equals_in_place(groups: &[Vec<DiffOp>]) -> Result<(), String> {
    for g in groups {
        for (i, op) in g.iter().enumerate() {
            if let DiffOp::Equal { old_index, new_index, len: 0 } = *op {
                if let Some(next) = g.get(i + 1) {
                    let (_, o, nn) = next.as_tag_tuple();
                    let old_ok = matches!(next, DiffOp::Insert { .. }) || o.start == old_index;
                    let new_ok = matches!(next, DiffOp::Delete { .. }) || nn.start == new_index;
                    if !old_ok || !new_ok {
                        return Err(format!("group {:?}: the zero-length {:?} does not sit where the following op starts", g, op));
                    }
                } else if i > 0 {
                    let (_, o, nn) = g[i - 1].as_tag_tuple();
                    let old_ok = matches!(g[i - 1], DiffOp::Insert { .. }) || o.end == old_index;
                    let new_ok = matches!(g[i - 1], DiffOp::Delete { .. }) || nn.end == new_index;
                    if !old_ok || !new_ok {
                        return Err(format!("group {:?}: the zero-length {:?} does not sit where the preceding op ends", g, op));
                    }
                }
            }
        }
    }
    Ok(())
}

pub fn judge_groups(ops: &[DiffOp], n: usize, groups: &[Vec<DiffOp>]) -> Result<(), String> {
    empty_equals_in_place(groups)?;
    // every non-Equal op exactly once, unchanged, in order
    let flat: Vec<DiffOp> = groups.iter().flatten().filter(|o| !is_eq(o)).cloned().collect();
    let want: Vec<DiffOp> = ops.iter().filter(|o| !is_eq(o)).cloned().collect();
    if flat != want {
        return Err(format!("non-Equal ops of the groups {:?} != non-Equal ops of the input {:?}", flat, want));
    }
    for (gi, g) in groups.iter().enumerate() {
        if g.iter().all(is_eq) {
            return Err(format!("group {} {:?} contains no change", gi, g));
        }
        for (i, op) in g.iter().enumerate() {
            if let DiffOp::Equal { len, .. } = op {
                let edge = i == 0 || i + 1 == g.len();
                if edge && *len > n {
                    return Err(format!("group {}: edge context {:?} longer than n={}", gi, op, n));
                }
                if !edge && *len > n.saturating_mul(2) {
                    return Err(format!("group {}: interior equal run {:?} longer than 2n={}", gi, op, n.saturating_mul(2)));
                }
            }
        }
    }
    // agreement with the reference grouping modulo zero-length Equal ops (the statement neither
    // requires nor forbids them)
    let cleaned: Vec<Vec<DiffOp>> = groups
        .iter()
        .map(|g| g.iter().filter(|o| !matches!(o, DiffOp::Equal { len: 0, .. })).cloned().collect())
        .collect();
    let reference = reference_groups(ops, n);
    if cleaned != reference {
        return Err(format!("groups {:?} differ from the reference grouping {:?} (input {:?}, n={})", groups, reference, ops, n));
    }
    Ok(())
}

fn check(case: &Case, obs: &mut Obs) -> Verdict {
    match case {
        Case::Ops { ops, n } => {
            let ops: Vec<DiffOp> = ops.iter().map(|s| s.to_op()).collect();
            let groups = match guard(|| group_diff_ops(ops.clone(), *n)) {
                Ok(g) => g,
                Err(p) => return Verdict::Fail(format!("group_diff_ops: {}", p)),
            };
            if let Err(m) = judge_groups(&ops, *n, &groups) {
                return Verdict::Fail(m);
            }
            // the same list recorded by a plain Capture (no Replace adapter in front: adjacent Delete /
            // Insert ops stay two ops) and grouped through Capture::into_grouped_ops
            match guard(|| {
                let mut cap = Capture::new();
                for op in &ops {
                    op.apply_to_hook(&mut cap).unwrap();
                }
                similar::algorithms::DiffHook::finish(&mut cap).unwrap();
                (cap.ops().to_vec(), cap.into_grouped_ops(*n))
            }) {
                Ok((recorded, g)) => {
                    if recorded != ops {
                        return Verdict::Fail(format!("a plain Capture records {:?} for the replayed list {:?}", recorded, ops));
                    }
                    if g != groups {
                        return Verdict::Fail(format!("Capture::into_grouped_ops({}) over the list as a plain Capture recorded it gives {:?}, group_diff_ops gives {:?} (input {:?})", n, g, groups, ops));
                    }
                }
                Err(p) => return Verdict::Fail(format!("Capture::into_grouped_ops over a replayed list: {}", p)),
            }
            let changes = ops.iter().filter(|o| !is_eq(o)).count();
            let special = ops.iter().any(|o| matches!(o, DiffOp::Equal { len, .. } if *len == *n || *len == n.saturating_mul(2) || *len == n.saturating_mul(2).saturating_add(1)));
            obs.nontrivial = changes >= 2 && special;
            obs.class("synthetic op list");
            obs.class_if(*n == 0, "n = 0");
            obs.class_if(groups.len() >= 2, ">= 2 groups");
            obs.class_if(ops.first().map_or(false, is_eq), "leading Equal");
            obs.class_if(ops.last().map_or(false, is_eq), "trailing Equal");
            obs.class_if(ops.first().map_or(false, |o| o.old_range().start > 0), "non-zero start offset");
            obs.class_if(ops.windows(2).any(|w| !is_eq(&w[0]) && !is_eq(&w[1])), "adjacent non-Equal ops (no Replace adapter)");
            Verdict::Pass
        }
        Case::Real { case, n } => {
            let c = case;
            let r = guard(|| {
                let mut d = Compact::new(Replace::new(Capture::new()), &c.old[..], &c.new[..]);
                similar::algorithms::diff(alg_of(c.alg), &mut d, &c.old[..], c.old_r(), &c.new[..], c.new_r()).unwrap();
                let cap = d.into_inner().into_inner();
                let ops = cap.ops().to_vec();
                (ops, cap.into_grouped_ops(*n))
            });
            let (ops, groups) = match r {
                Ok(x) => x,
                Err(p) => return Verdict::Fail(format!("Capture::into_grouped_ops: {}", p)),
            };
            if let Err(m) = judge_groups(&ops, *n, &groups) {
                return Verdict::Fail(format!("Capture::into_grouped_ops: {}", m));
            }
            match guard(|| group_diff_ops(ops.clone(), *n)) {
                Ok(g) if g == groups => {}
                Ok(g) => return Verdict::Fail(format!("group_diff_ops {:?} != Capture::into_grouped_ops {:?}", g, groups)),
                Err(p) => return Verdict::Fail(format!("group_diff_ops: {}", p)),
            }
            // a Capture that was filled by replaying ops (DiffOp::apply_to_hook) and never got a
            // finish() call groups its ops the same way
            match guard(|| {
                let mut cap = Capture::new();
                for op in &ops {
                    op.apply_to_hook(&mut cap).unwrap();
                }
                cap.into_grouped_ops(*n)
            }) {
                Ok(g) if g == groups => {}
                Ok(g) => return Verdict::Fail(format!("a Capture filled through apply_to_hook (no finish call) groups into {:?}, group_diff_ops gives {:?}", g, groups)),
                Err(p) => return Verdict::Fail(format!("Capture::into_grouped_ops after apply_to_hook: {}", p)),
            }
            obs.nontrivial = ops.iter().filter(|o| !is_eq(o)).count() >= 2;
            obs.class("real diff: Capture::into_grouped_ops");
            obs.class_if(groups.len() >= 2, ">= 2 groups");
            Verdict::Pass
        }
        Case::Text { case, n } => {
            let c = case;
            let cfg = config(c.alg);
            // a history of calls on ONE diff object: group with another radius first, render a
            // unified diff with a third one, then group with n (twice); every answer is judged on
            // its own, so a result may not depend on what was asked before
            let pre = [0usize, 1, 2, 3, 5, 1000, usize::MAX, *n][(c.opt % 8) as usize];
            let pre2 = [1usize, 0, 3, 0, 2, 0, 1, 4][(c.opt % 8) as usize];
            let r = guard(|| {
                if c.use_bytes() {
                    let d = diff_bytes(&cfg, c.tok, &c.old.0, &c.new.0);
                    let g0 = d.grouped_ops(pre);
                    let _ = d.unified_diff().context_radius(pre2).to_string();
                    (d.ops().to_vec(), g0, d.grouped_ops(*n), d.grouped_ops(*n))
                } else {
                    let d = diff_str(&cfg, c.tok, c.old.as_str().unwrap(), c.new.as_str().unwrap());
                    let g0 = d.grouped_ops(pre);
                    let _ = d.unified_diff().context_radius(pre2).to_string();
                    (d.ops().to_vec(), g0, d.grouped_ops(*n), d.grouped_ops(*n))
                }
            });
            let (ops, g0, groups, again) = match r {
                Ok(x) => x,
                Err(p) => return Verdict::Fail(format!("TextDiff::grouped_ops: {}", p)),
            };
            if let Err(m) = judge_groups(&ops, pre, &g0) {
                return Verdict::Fail(format!("TextDiff::grouped_ops({}): {}", pre, m));
            }
            if let Err(m) = judge_groups(&ops, *n, &groups) {
                return Verdict::Fail(format!("TextDiff::grouped_ops({}) after grouped_ops({}) and a unified diff with radius {} on the same diff: {}", n, pre, pre2, m));
            }
            if again != groups {
                return Verdict::Fail(format!("TextDiff::grouped_ops({}) called twice gives {:?} and {:?}", n, groups, again));
            }
            // the same text as caller-split lines (str::split('\n'): no terminators, a trailing empty item
            // after a final line break) through diff_slices
            if let (Some(o), Some(nw)) = (c.old.as_str(), c.new.as_str()) {
                let (to, tn): (Vec<&str>, Vec<&str>) = (o.split('\n').collect(), nw.split('\n').collect());
                match guard(|| {
                    let d = cfg.diff_slices(&to, &tn);
                    (d.ops().to_vec(), d.grouped_ops(*n))
                }) {
                    Ok((ops2, g2)) => {
                        if let Err(m) = judge_groups(&ops2, *n, &g2) {
                            return Verdict::Fail(format!("TextDiff::grouped_ops({}) over caller-split lines {:?} / {:?}: {}", n, to, tn, m));
                        }
                    }
                    Err(p) => return Verdict::Fail(format!("TextDiff::grouped_ops over caller-split lines: {}", p)),
                }
            }
            obs.nontrivial = ops.iter().filter(|o| !is_eq(o)).count() >= 2;
            obs.class("real diff: TextDiff::grouped_ops");
            obs.class_if(groups.len() >= 2, ">= 2 groups");
            Verdict::Pass
        }
    }
}

/// builds an alternating op list
fn build_ops(start: (usize, usize), lead: Option<usize>, segs: &[(u8, usize, usize, usize)], trail: bool) -> Vec<SOp> {
    let (mut o, mut n) = start;
    let mut ops = vec![];
    if let Some(l) = lead {
        ops.push(SOp::Equal(o, n, l));
        o += l;
        n += l;
    }
    for (i, (kind, dl, il, el)) in segs.iter().enumerate() {
        match kind % 5 {
            0 => {
                ops.push(SOp::Delete(o, *dl, n));
                o += dl;
            }
            1 => {
                ops.push(SOp::Insert(o, n, *il));
                n += il;
            }
            // two adjacent non-Equal ops, as a Capture without the Replace adapter (or a caller's
            // own hook) records them: a valid op list need not alternate
            3 => {
                ops.push(SOp::Delete(o, *dl, n));
                o += dl;
                ops.push(SOp::Insert(o, n, *il));
                n += il;
            }
            4 => {
                ops.push(SOp::Insert(o, n, *il));
                n += il;
                ops.push(SOp::Delete(o, *dl, n));
                o += dl;
            }
            _ => {
                ops.push(SOp::Replace(o, *dl, n, *il));
                o += dl;
                n += il;
            }
        }
        if i + 1 < segs.len() || trail {
            ops.push(SOp::Equal(o, n, *el));
            o += el;
            n += el;
        }
    }
    ops
}

/// (the selectors 7..=9 add n-1, 2n-1 and 3n, which matter for large n too)
fn eq_len(sel: u8, raw: usize, n: usize) -> usize {
    if sel >= 7 {
        let n = n.min(1 << 40);
        return match sel {
            7 => n.saturating_sub(1),
            8 => (2 * n).saturating_sub(1),
            _ => 3 * n,
        }
        .max(1);
    }
    // run lengths around n, 2n, ... also for huge n (op lists need no backing sequences)
    let n = n.min(1 << 40);
    (match sel % 7 {
        0 => n,
        1 => 2 * n,
        2 => 2 * n + 1,
        3 => 1,
        4 => n + 1,
        5 => 2 * n + 2,
        _ => raw,
    })
    .max(1)
}

fn radius() -> impl Strategy<Value = usize> {
    prop_oneof![
        16 => 0usize..6,
        2 => Just(10usize),
        2 => Just(1000usize),
        // "all the context there is": radii near the top of the integer range
        1 => prop_oneof![Just(usize::MAX), Just(usize::MAX / 2), Just(usize::MAX / 2 + 1), Just(1usize << 63), Just((1usize << 32) + 5), Just(u32::MAX as usize)],
    ]
}

fn strat(tier: Tier) -> BoxedStrategy<Case> {
    let synth = (radius(), (0usize..4, 0usize..4), proptest::option::of((0u8..10, 1usize..14)), vec((prop_oneof![3 => 0u8..3, 1 => 3u8..5], 1usize..4, 1usize..4, 0u8..10, 1usize..14), 0..=6), any::<bool>())
        .prop_map(|(n, start, lead, segs, trail)| {
            let segs: Vec<(u8, usize, usize, usize)> = segs.into_iter().map(|(k, d, i, s, r)| (k, d, i, eq_len(s, r, n))).collect();
            let lead = lead.map(|(s, r)| eq_len(s, r, n));
            // an op list consisting of a lone leading Equal is valid too
            Case::Ops { ops: build_ops(start, lead, &segs, trail), n }
        });
    prop_oneof![
        6 => synth,
        2 => (seq_case(tier.pick(60, 150), true, 1), radius()).prop_map(|(case, n)| Case::Real { case, n }),
        // real diffs with 64-300 ops: many scattered single edits, equal runs of 1-6 items between them
        1 => (proptest::collection::vec((1usize..7, 0u8..3), 40..=150), 0usize..8, 0usize..8, radius(), 0u8..2).prop_map(|(segs, lead, trail, n, alg)| {
            let mut old = vec![];
            let mut new = vec![];
            let mut next = 100u32;
            let mut fresh = |k: usize, v: &mut Vec<u32>| {
                for _ in 0..k {
                    v.push(next);
                    next += 1;
                }
            };
            let shared = |k: usize, o: &mut Vec<u32>, nw: &mut Vec<u32>, base: &mut u32| {
                for _ in 0..k {
                    o.push(*base);
                    nw.push(*base);
                    *base += 1;
                }
            };
            let mut base = 1_000_000u32;
            shared(lead, &mut old, &mut new, &mut base);
            for (run, kind) in segs {
                match kind {
                    0 => fresh(1, &mut old),
                    1 => fresh(1, &mut new),
                    _ => {
                        fresh(1, &mut old);
                        fresh(1, &mut new);
                    }
                }
                shared(run, &mut old, &mut new, &mut base);
            }
            // the last shared run is `trail` items long
            for _ in 0..trail {
                old.push(base);
                new.push(base);
                base += 1;
            }
            Case::Real { case: SeqCase::full(alg, old, new), n }
        }),
        1 => (prop_oneof![4 => line_case(30, false), 4 => text_case_mix(120), 1 => big_line_case(130)], radius()).prop_map(|(case, n)| Case::Text { case, n }),
    ]
    .boxed()
}

fn enum_lists(tier: Tier, f: &mut dyn FnMut(Case) -> bool) {
    // all alternating lists with up to `maxc` changes, Equal run lengths in 1..=5, change = Delete(1)
    // | Insert(1) | Delete(1) followed by Insert(1) (two adjacent ops), x lead/trail x n in 0..=2
    let maxc = tier.pick(3usize, 4);
    let lens = [1usize, 2, 3, 4, 5];
    for n in 0..=2usize {
        for nchg in 0..=maxc {
            // number of Equal slots: lead (optional), between (nchg-1), trail (optional)
            for lead in 0..=lens.len() {
                for trail in 0..=lens.len() {
                    if nchg == 0 && trail > 0 {
                        continue;
                    }
                    let between = nchg.saturating_sub(1);
                    let mut idx = vec![0usize; between];
                    loop {
                        for kinds in 0..(3usize.pow(nchg as u32)) {
                            let segs: Vec<(u8, usize, usize, usize)> = (0..nchg)
                                .map(|i| {
                                    let kind = [0u8, 1, 3][(kinds / 3usize.pow(i as u32)) % 3];
                                    let el = if i < between { lens[idx[i]] } else if trail > 0 { lens[trail - 1] } else { 1 };
                                    (kind, 1, 1, el)
                                })
                                .collect();
                            let ops = build_ops((1, 2), if lead > 0 { Some(lens[lead - 1]) } else { None }, &segs, trail > 0);
                            if !f(Case::Ops { ops, n }) {
                                return;
                            }
                        }
                        // odometer
                        let mut p = between;
                        let mut carry = true;
                        while carry && p > 0 {
                            p -= 1;
                            idx[p] += 1;
                            if idx[p] < lens.len() {
                                carry = false;
                            } else {
                                idx[p] = 0;
                            }
                        }
                        if carry {
                            break;
                        }
                    }
                }
            }
        }
    }
}

impl Prop for C12 {
    type Case = Case;
    const ID: &'static str = "C12";
    fn rule() -> String {
        "cases = Ops(valid op list - alternating, or with a Delete directly followed by an Insert or the reverse as a Capture without the Replace adapter records them - with arbitrary run lengths biased to {n, 2n, 2n+1, 2n+2, n+1, 1}, optional leading/trailing Equal, non-zero start offsets; n in 0..6 | 10 | 1000) | Real(sequence diff through Capture::into_grouped_ops and group_diff_ops; also diffs with 64-300 ops)  | Text(TextDiff::grouped_ops as a call history on one diff object: grouped_ops(other radius), a unified diff with a third radius, grouped_ops(n) twice, each answer judged on its own; the same texts also as caller-split lines with a trailing empty item through diff_slices); enumeration of all lists with few changes (Delete, Insert or Delete+Insert as two ops), Equal lengths 1..=5, n in 0..=2. Synthetic lists are also replayed into a plain Capture (no Replace adapter) and grouped through Capture::into_grouped_ops == group_diff_ops. Oracle: flattened non-Equal ops == input non-Equal ops; no all-Equal group; edge context <= n and interior runs <= 2n; equality with a reference grouping written from the statement (modulo zero-length Equal ops, which the pinned code emits for n=0 and the statement neither requires nor forbids). Non-trivial = >= 2 changes and (synthetic) an Equal run of length n, 2n or 2n+1; distinct = distinct serialized case.".into()
    }
    fn assumptions() -> Vec<String> {
        vec!["input lists never hold two adjacent Equal ops (equal runs are whole, as every capture path of the crate produces them); adjacent non-Equal ops are in the domain; zero-length Equal ops in the output are tolerated".into()]
    }
    fn stages(tier: Tier) -> Vec<Stage<Case>> {
        vec![
            Stage {
                name: "enum-lists",
                kind: StageKind::Enumerate {
                    scope: format!("all alternating op lists with <= {} unit changes (Delete|Insert), Equal run lengths 1..=5, optional leading/trailing Equal, n in 0..=2", tier.pick(3, 4)),
                    exhaustive: true,
                    gen: enum_lists,
                },
            },
            Stage { name: "random", kind: StageKind::Random { strategy: strat, cases: tier.pick(1_000_000, 6_000_000) } },
        ]
    }
    fn check(case: &Case, obs: &mut Obs) -> Verdict {
        check(case, obs)
    }
}
