//! C08 — hook protocol: finish once and last; a hook error aborts the diff unchanged.
//! Fault enumeration: for every generated (input, algorithm, stack, flavour) EVERY index k of the
//! success log is used as the failing call.

use crate::core::*;
use crate::gen::*;
use crate::oracle::*;
use proptest::prelude::*;
use similar::algorithms::{Compact, DiffHook, NoFinishHook, Replace};

pub struct C08;

pub const STACKS: [&str; 12] = [
    "bare",
    "Replace",
    "Compact",
    "Compact<Replace>",
    "NoFinishHook",
    "&mut",
    "Replace<NoFinishHook>",
    "Replace<&mut>",
    "Replace<Replace>",
    "captured ops (with Replace ops) replayed through apply_to_hook into Replace",
    "one Replace adapter used for two diffs (the second over empty ranges)",
    "one Compact<Replace> adapter used for two diffs (the first over empty ranges)",
];
pub const NSTACKS: u8 = 12;
/// mode value of the direct-call cases (hook methods called by hand)
pub const MODE_DIRECT: u8 = 255;
/// mode value: one NoFinishHook value forwards two diffs
pub const MODE_NF_REUSE: u8 = 254;

struct Run {
    result: Result<(), usize>,
    events: Vec<Ev>,
    calls_after_error: usize,
}

/// deadline variant of a case: 0 none, 1..3 = virtual clock expiring at probe 0 / 1 / 3
fn dl_of(c: &SeqCase) -> u8 {
    (c.mode / (2 * NSTACKS)) % 4
}

mod algorithms {
    //! the same entry point as `similar::algorithms::diff`, with the case's deadline variant
    use super::*;
    pub fn diff<D: DiffHook>(alg: similar::Algorithm, d: &mut D, old: &[u32], or: std::ops::Range<usize>, new: &[u32], nr: std::ops::Range<usize>) -> Result<(), D::Error> {
        // full-range cases rotate through the slice entry points as well: diff_slices,
        // diff_slices_deadline with a real deadline one hour ahead (never reached), and - in the
        // deadline variants - diff_slices_deadline under the virtual clock
        let full = or == (0..old.len()) && nr == (0..new.len());
        let pick = (old.len() + 2 * new.len()) % 3;
        match DL.with(|x| x.get()) {
            0 if full && pick == 1 => similar::algorithms::diff_slices(alg, d, old, new),
            0 if full && pick == 2 => similar::algorithms::diff_slices_deadline(alg, d, old, new, Some(super::super::common::far_future())),
            0 => similar::algorithms::diff(alg, d, old, or, new, nr),
            v => {
                similar::verif::clock::install(Some([0u64, 0, 1, 3][v as usize]));
                let r = if full && pick != 0 {
                    similar::algorithms::diff_slices_deadline(alg, d, old, new, Some(super::super::common::far_future()))
                } else {
                    similar::algorithms::diff_deadline(alg, d, old, or, new, nr, Some(super::super::common::far_future()))
                };
                similar::verif::clock::install(None);
                r
            }
        }
    }
    thread_local! {
        pub static DL: std::cell::Cell<u8> = std::cell::Cell::new(0);
    }
}

fn run_with<H: DiffHook<Error = usize>>(c: &SeqCase, stack: u8, hook: H, get: impl Fn(&H) -> (Vec<Ev>, usize)) -> Run {
    let alg = alg_of(c.alg);
    algorithms::DL.with(|x| x.set(dl_of(c)));
    let (old, new) = (&c.old[..], &c.new[..]);
    match stack % NSTACKS {
        0 => {
            let mut h = hook;
            let result = algorithms::diff(alg, &mut h, old, c.old_r(), new, c.new_r());
            let (events, cae) = get(&h);
            Run { result, events, calls_after_error: cae }
        }
        1 => {
            let mut h = Replace::new(hook);
            let result = algorithms::diff(alg, &mut h, old, c.old_r(), new, c.new_r());
            let (events, cae) = get(&h.into_inner());
            Run { result, events, calls_after_error: cae }
        }
        2 => {
            let mut h = Compact::new(hook, old, new);
            let result = algorithms::diff(alg, &mut h, old, c.old_r(), new, c.new_r());
            let (events, cae) = get(&h.into_inner());
            Run { result, events, calls_after_error: cae }
        }
        3 => {
            let mut h = Compact::new(Replace::new(hook), old, new);
            let result = algorithms::diff(alg, &mut h, old, c.old_r(), new, c.new_r());
            let (events, cae) = get(&h.into_inner().into_inner());
            Run { result, events, calls_after_error: cae }
        }
        4 => {
            let mut h = NoFinishHook::new(hook);
            let result = algorithms::diff(alg, &mut h, old, c.old_r(), new, c.new_r());
            let (events, cae) = get(&h.into_inner());
            Run { result, events, calls_after_error: cae }
        }
        5 => {
            let mut h = hook;
            let result = {
                let mut r: &mut H = &mut h;
                algorithms::diff(alg, &mut r, old, c.old_r(), new, c.new_r())
            };
            let (events, cae) = get(&h);
            Run { result, events, calls_after_error: cae }
        }
        6 => {
            // replace calls travel through the finish-suppressing wrapper
            let mut h = Replace::new(NoFinishHook::new(hook));
            let result = algorithms::diff(alg, &mut h, old, c.old_r(), new, c.new_r());
            let (events, cae) = get(&h.into_inner().into_inner());
            Run { result, events, calls_after_error: cae }
        }
        7 => {
            let mut h = hook;
            let result = {
                let mut r = Replace::new(&mut h);
                algorithms::diff(alg, &mut r, old, c.old_r(), new, c.new_r())
            };
            let (events, cae) = get(&h);
            Run { result, events, calls_after_error: cae }
        }
        8 => {
            // replace events arrive at a Replace adapter
            let mut h = Replace::new(Replace::new(hook));
            let result = algorithms::diff(alg, &mut h, old, c.old_r(), new, c.new_r());
            let (events, cae) = get(&h.into_inner().into_inner());
            Run { result, events, calls_after_error: cae }
        }
        9 => {
            // a captured op list (it contains Replace ops) replayed into Replace<hook>
            let ops = {
                let mut cap = Compact::new(Replace::new(similar::algorithms::Capture::new()), old, new);
                algorithms::diff(alg, &mut cap, old, c.old_r(), new, c.new_r()).unwrap();
                cap.into_inner().into_inner().into_ops()
            };
            let mut h = Replace::new(hook);
            let mut result = Ok(());
            for op in &ops {
                result = op.apply_to_hook(&mut h);
                if result.is_err() {
                    break;
                }
            }
            if result.is_ok() {
                result = h.finish();
            }
            let (events, cae) = get(&h.into_inner());
            Run { result, events, calls_after_error: cae }
        }
        10 => {
            // one adapter instance, two diffs: the case's diff, then a diff of two empty ranges
            let mut h = Replace::new(hook);
            let mut result = algorithms::diff(alg, &mut h, old, c.old_r(), new, c.new_r());
            if result.is_ok() {
                result = algorithms::diff(alg, &mut h, old, c.or.0..c.or.0, new, c.nr.0..c.nr.0);
            }
            let (events, cae) = get(&h.into_inner());
            Run { result, events, calls_after_error: cae }
        }
        _ => {
            let mut h = Compact::new(Replace::new(hook), old, new);
            let mut result = algorithms::diff(alg, &mut h, old, c.or.0..c.or.0, new, c.nr.0..c.nr.0);
            if result.is_ok() {
                result = algorithms::diff(alg, &mut h, old, c.old_r(), new, c.new_r());
            }
            let (events, cae) = get(&h.into_inner().into_inner());
            Run { result, events, calls_after_error: cae }
        }
    }
}

/// Hook methods called by hand: a replace event of any shape (also with an empty side) reaching a
/// hook that does not override `replace` must arrive as delete followed by insert, directly and
/// through the forwarding wrappers.  `c.or` = (old_index, old_len), `c.nr` = (new_index, new_len).
fn check_direct(c: &SeqCase, obs: &mut Obs) -> Verdict {
    let (o, ol) = c.or;
    let (n, nl) = c.nr;
    let want = vec![Ev::Delete(o, ol, n), Ev::Insert(o, n, nl)];
    let via = ["direct", "&mut", "NoFinishHook", "Replace (pass-through)", "&mut &mut"];
    for (i, name) in via.iter().enumerate() {
        let r = guard(|| {
            let mut rec = RecorderNoReplace(Recorder::new());
            let res = match i {
                0 => rec.replace(o, ol, n, nl),
                1 => {
                    let mut r: &mut RecorderNoReplace = &mut rec;
                    DiffHook::replace(&mut r, o, ol, n, nl)
                }
                2 => {
                    let mut w = NoFinishHook::new(&mut rec);
                    w.replace(o, ol, n, nl)
                }
                3 => {
                    let mut w = Replace::new(&mut rec);
                    w.replace(o, ol, n, nl)
                }
                _ => {
                    let mut r1: &mut RecorderNoReplace = &mut rec;
                    let mut r2 = &mut r1;
                    DiffHook::replace(&mut r2, o, ol, n, nl)
                }
            };
            (res, rec.0.events)
        });
        match r {
            Ok((Ok(()), ev)) if ev == want => {}
            Ok((res, ev)) => return Verdict::Fail(format!("replace({}, {}, {}, {}) on a hook without a replace override, called {}: result {:?}, the hook saw {:?}, expected {:?}", o, ol, n, nl, name, res, ev, want)),
            Err(p) => return Verdict::Fail(format!("replace({}, {}, {}, {}) {}: {}", o, ol, n, nl, name, p)),
        }
        // the first of the two calls failing stops the second
        let r = guard(|| {
            let mut rec = RecorderNoReplace(Recorder::failing(0));
            let res = rec.replace(o, ol, n, nl);
            (res, rec.0.events.len())
        });
        if r != Ok((Err(0), 1)) {
            return Verdict::Fail(format!("default replace with a failing delete: {:?}, expected Err(0) after 1 call", r));
        }
    }
    obs.executions = 10;
    obs.nontrivial = ol != nl;
    obs.class("hook methods called by hand (default replace, forwarding wrappers)");
    obs.class_if(ol == 0 || nl == 0, "replace event with an empty side");
    Verdict::Pass
}

fn run(c: &SeqCase, stack: u8, overrides_replace: bool, fail_at: Option<usize>) -> Result<Run, String> {
    guard(|| {
        let rec = match fail_at {
            Some(k) => Recorder::failing(k),
            None => Recorder::new(),
        };
        if overrides_replace {
            run_with(c, stack, rec, |h| (h.events.clone(), h.calls_after_error))
        } else {
            run_with(c, stack, RecorderNoReplace(rec), |h| (h.0.events.clone(), h.0.calls_after_error))
        }
    })
}

fn expand_replace(ev: &[Ev]) -> Vec<Ev> {
    let mut out = vec![];
    for e in ev {
        match *e {
            Ev::Replace(o, ol, n, nl) => {
                out.push(Ev::Delete(o, ol, n));
                out.push(Ev::Insert(o, n, nl));
            }
            e => out.push(e),
        }
    }
    out
}

fn check_case(c: &SeqCase, obs: &mut Obs) -> Verdict {
    if c.mode == MODE_DIRECT {
        return check_direct(c, obs);
    }
    if c.mode == MODE_NF_REUSE {
        // the finish-suppressing wrapper keeps no state: used for a second diff (and for calls made by
        // hand after it) it forwards exactly what a bare hook sees, finish aside
        let alg = alg_of(c.alg);
        let r = guard(|| {
            let mut bare = Recorder::new();
            similar::algorithms::diff_slices(alg, &mut bare, &c.old[..], &c.new[..]).unwrap();
            let mut rec = Recorder::new();
            {
                let mut nf = NoFinishHook::new(&mut rec);
                similar::algorithms::diff_slices(alg, &mut nf, &c.old[..], &c.new[..]).unwrap();
                similar::algorithms::diff_slices(alg, &mut nf, &c.old[..], &c.new[..]).unwrap();
                nf.equal(7, 7, 1).unwrap();
            }
            (bare.events, rec.events)
        });
        return match r {
            Ok((bare, got)) => {
                let once: Vec<Ev> = bare.into_iter().filter(|e| *e != Ev::Finish).collect();
                let mut want = once.clone();
                want.extend(once);
                want.push(Ev::Equal(7, 7, 1));
                if got != want {
                    return Verdict::Fail(format!("{}: one NoFinishHook used for two diffs and one call by hand forwards {:?}, expected {:?}", alg_name(c.alg), got, want));
                }
                obs.executions = 3;
                obs.nontrivial = true;
                obs.class("one NoFinishHook value used for two diffs");
                Verdict::Pass
            }
            Err(p) => Verdict::Fail(format!("{}: one NoFinishHook used for two diffs: {}", alg_name(c.alg), p)),
        };
    }
    let stack = c.mode % NSTACKS;
    let overrides = (c.mode / NSTACKS) % 2 == 0;
    let name = format!(
        "{} / {} / {}{}",
        alg_name(c.alg),
        STACKS[stack as usize],
        if overrides { "hook overrides replace" } else { "hook with default replace" },
        ["", " / deadline expiring at probe 0", " / deadline expiring at probe 1", " / deadline expiring at probe 3"][dl_of(c) as usize]
    );
    let ok = match run(c, stack, overrides, None) {
        Ok(r) => r,
        Err(p) => return Verdict::Fail(format!("{}: {}", name, p)),
    };
    if ok.result.is_err() {
        return Verdict::Fail(format!("{}: success run returned {:?}", name, ok.result));
    }
    let log = ok.events.clone();
    let fin = log.iter().filter(|e| **e == Ev::Finish).count();
    if stack == 6 {
        // judged below
    } else if stack == 4 {
        if fin != 0 {
            return Verdict::Fail(format!("{}: finish reached the hook through NoFinishHook (log {:?})", name, log));
        }
        // forwards everything except finish: compare with the bare run
        match run(c, 0, overrides, None) {
            Ok(bare) => {
                let mut want = bare.events.clone();
                want.retain(|e| *e != Ev::Finish);
                if want != log {
                    return Verdict::Fail(format!("{}: forwarded calls {:?} != bare run without finish {:?}", name, log, want));
                }
            }
            Err(p) => return Verdict::Fail(format!("bare run: {}", p)),
        }
    } else if stack >= 10 {
        // two diffs through one adapter: the log is the log of each diff through a fresh adapter,
        // one after the other (so finish twice: at the end of each)
        let single = |empty: bool| -> Result<Vec<Ev>, String> {
            let mut c2 = c.clone();
            if empty {
                c2.or = (c.or.0, c.or.0);
                c2.nr = (c.nr.0, c.nr.0);
            }
            run(&c2, if stack == 10 { 1 } else { 3 }, overrides, None).map(|r| r.events)
        };
        match (single(stack == 11), single(stack == 10)) {
            (Ok(mut a), Ok(b)) => {
                a.extend(b);
                if a != log {
                    return Verdict::Fail(format!("{}: log {:?} != the two diffs through fresh adapters, one after the other {:?}", name, log, a));
                }
            }
            (Err(p), _) | (_, Err(p)) => return Verdict::Fail(format!("{}: {}", name, p)),
        }
    } else {
        if fin != 1 || log.last() != Some(&Ev::Finish) {
            return Verdict::Fail(format!("{}: finish must be called exactly once and last; log {:?}", name, log));
        }
    }
    if stack == 8 {
        match run(c, 1, overrides, None) {
            Ok(r) if r.events == log => {}
            Ok(r) => return Verdict::Fail(format!("{}: calls through Replace<Replace<hook>> {:?} != Replace<hook> {:?}", name, log, r.events)),
            Err(p) => return Verdict::Fail(format!("Replace run: {}", p)),
        }
    }
    if stack == 6 {
        if fin != 0 {
            return Verdict::Fail(format!("{}: finish reached the hook through NoFinishHook (log {:?})", name, log));
        }
        // everything except finish is forwarded unchanged, replace calls included
        match run(c, 1, overrides, None) {
            Ok(r) => {
                let mut want = r.events.clone();
                want.retain(|e| *e != Ev::Finish);
                if want != log {
                    return Verdict::Fail(format!("{}: forwarded calls {:?} != calls of the same stack without the wrapper, minus finish {:?}", name, log, want));
                }
            }
            Err(p) => return Verdict::Fail(format!("Replace run: {}", p)),
        }
    }
    if stack == 7 {
        match run(c, 1, overrides, None) {
            Ok(r) if r.events == log => {}
            Ok(r) => return Verdict::Fail(format!("{}: calls through Replace<&mut> {:?} != Replace<hook> {:?}", name, log, r.events)),
            Err(p) => return Verdict::Fail(format!("Replace run: {}", p)),
        }
    }
    if stack == 5 {
        match run(c, 0, overrides, None) {
            Ok(bare) if bare.events == log => {}
            Ok(bare) => return Verdict::Fail(format!("{}: calls through &mut {:?} != direct {:?}", name, log, bare.events)),
            Err(p) => return Verdict::Fail(format!("bare run: {}", p)),
        }
    }
    if stack == 0 && dl_of(c) == 0 && c.is_full() {
        // the slice entry point is the same diff; and the very same slice on both sides is an
        // ordinary input (finish once and last)
        match guard(|| {
            let mut a = Recorder::new();
            similar::algorithms::diff_slices(alg_of(c.alg), &mut a, &c.old[..], &c.new[..]).unwrap();
            let mut b = Recorder::new();
            similar::algorithms::diff_slices(alg_of(c.alg), &mut b, &c.old[..], &c.old[..]).unwrap();
            let copy = c.old.clone();
            let mut b2 = Recorder::new();
            similar::algorithms::diff_slices(alg_of(c.alg), &mut b2, &c.old[..], &copy[..]).unwrap();
            (a.events, b.events, b2.events)
        }) {
            Ok((a, b, b2)) => {
                if overrides && a != log {
                    return Verdict::Fail(format!("{}: diff_slices calls {:?}, diff {:?}", name, a, log));
                }
                if b != b2 || b.iter().filter(|e| **e == Ev::Finish).count() != 1 || b.last() != Some(&Ev::Finish) {
                    return Verdict::Fail(format!("{}: diff_slices with the very same slice on both sides calls {:?}, with an equal copy {:?}", name, b, b2));
                }
            }
            Err(p) => return Verdict::Fail(format!("{}: diff_slices: {}", name, p)),
        }
    }
    if !overrides {
        // a hook that does not override replace sees delete followed by insert
        if log.iter().any(|e| matches!(e, Ev::Replace(..))) {
            return Verdict::Fail(format!("{}: replace reached a hook that does not override it", name));
        }
        match run(c, stack, true, None) {
            Ok(r) => {
                let want = expand_replace(&r.events);
                if want != log {
                    return Verdict::Fail(format!("{}: log {:?} != replace-overriding log with replace expanded to delete+insert {:?}", name, log, want));
                }
            }
            Err(p) => return Verdict::Fail(format!("overriding run: {}", p)),
        }
    }
    // fault enumeration: every call index fails once
    let mut execs = 1u64;
    // large fixed cases (k flag set): a sample of failing positions instead of all of them
    let ks: Vec<usize> = if c.k.is_some() && log.len() > 8 {
        vec![0, 1, log.len() / 3, log.len() / 2, log.len() - 2, log.len() - 1]
    } else {
        (0..log.len()).collect()
    };
    for k in ks {
        let r = match run(c, stack, overrides, Some(k)) {
            Ok(r) => r,
            Err(p) => return Verdict::Fail(format!("{} failing at call {}: {}", name, k, p)),
        };
        execs += 1;
        if r.result != Err(k) {
            return Verdict::Fail(format!("{}: hook call {} returned Err({}), the diff returned {:?} (success log {:?})", name, k, k, r.result, log));
        }
        if r.events.len() != k + 1 || r.calls_after_error != 0 {
            return Verdict::Fail(format!(
                "{}: hook call {} failed but the hook saw {} calls ({} after the error): {:?}",
                name, k, r.events.len(), r.calls_after_error, r.events
            ));
        }
        if r.events[..] != log[..k + 1] {
            return Verdict::Fail(format!("{}: failing at call {}: calls {:?} are not the first {} calls of the success log {:?}", name, k, r.events, k + 1, log));
        }
    }
    // an adapter instance that went through an ABORTED diff (the hook failed at call k) is used for a
    // second, successful diff: the hook sees exactly the calls of a fresh adapter
    if stack == 1 && dl_of(c) == 0 && !log.is_empty() {
        let k = log.len() / 2;
        let r = guard(|| {
            let alg = alg_of(c.alg);
            // a hook that fails once at call k and records everything
            struct FailOnce {
                rec: Recorder,
                fail_at: usize,
                calls: usize,
            }
            impl FailOnce {
                fn step(&mut self) -> bool {
                    let c = self.calls;
                    self.calls += 1;
                    c == self.fail_at
                }
            }
            impl DiffHook for FailOnce {
                type Error = usize;
                fn equal(&mut self, o: usize, n: usize, l: usize) -> Result<(), usize> {
                    if self.step() { return Err(0); }
                    self.rec.equal(o, n, l)
                }
                fn delete(&mut self, o: usize, l: usize, n: usize) -> Result<(), usize> {
                    if self.step() { return Err(0); }
                    self.rec.delete(o, l, n)
                }
                fn insert(&mut self, o: usize, n: usize, l: usize) -> Result<(), usize> {
                    if self.step() { return Err(0); }
                    self.rec.insert(o, n, l)
                }
                fn replace(&mut self, o: usize, ol: usize, n: usize, nl: usize) -> Result<(), usize> {
                    if self.step() { return Err(0); }
                    self.rec.replace(o, ol, n, nl)
                }
                fn finish(&mut self) -> Result<(), usize> {
                    if self.step() { return Err(0); }
                    self.rec.finish()
                }
            }
            let mut h = Replace::new(FailOnce { rec: Recorder::new(), fail_at: k, calls: 0 });
            let first = similar::algorithms::diff(alg, &mut h, &c.old[..], c.old_r(), &c.new[..], c.new_r());
            let seen_first = h.as_ref().rec.events.len();
            let second = similar::algorithms::diff(alg, &mut h, &c.old[..], c.old_r(), &c.new[..], c.new_r());
            let all = h.into_inner().rec.events;
            (first, second, all[seen_first..].to_vec())
        });
        execs += 2;
        match r {
            Ok((first, second, after)) => {
                if first.is_ok() || second.is_err() || (overrides && after != log) {
                    return Verdict::Fail(format!(
                        "{}: a Replace adapter whose first diff was aborted by a hook error at call {} and that is then used for a second diff: first {:?}, second {:?}, calls of the second diff {:?}, a fresh adapter gives {:?}",
                        name, k, first, second, after, log
                    ));
                }
            }
            Err(p) => return Verdict::Fail(format!("{}: adapter reused after an aborted diff: {}", name, p)),
        }
    }
    obs.executions = execs;
    let changes = log.iter().filter(|e| !matches!(e, Ev::Equal(..) | Ev::Finish)).count();
    obs.nontrivial = log.len() >= 3 && changes >= 1;
    obs.class(STACKS[stack as usize]);
    obs.class(alg_name(c.alg));
    obs.class_if(!overrides, "default replace");
    obs.class_if(dl_of(c) > 0, "deadline expiring at probe 0/1/3 (fallback paths)");
    obs.class_if(log.iter().any(|e| matches!(e, Ev::Replace(..))), "replace call seen");
    Verdict::Pass
}

fn strat(tier: Tier) -> BoxedStrategy<SeqCase> {
    prop_oneof![
        8 => seq_case(tier.pick(14, 24), true, 8 * NSTACKS),
        1 => seq_case(tier.pick(40, 80), true, 8 * NSTACKS),
    ]
    .boxed()
}

fn enum_direct(_tier: Tier, f: &mut dyn FnMut(SeqCase) -> bool) {
    for o in 0..3usize {
        for ol in 0..4usize {
            for n in 0..3usize {
                for nl in 0..4usize {
                    let c = SeqCase { alg: 0, old: vec![], new: vec![], or: (o, ol), nr: (n, nl), mode: MODE_DIRECT, k: None };
                    if !f(c) {
                        return;
                    }
                }
            }
        }
    }
}

fn enum_small(tier: Tier, f: &mut dyn FnMut(SeqCase) -> bool) {
    let seqs = all_seqs(2, tier.pick(4, 5));
    for a in &seqs {
        for b in &seqs {
            for alg in 0..3u8 {
                for mode in 0..8 * NSTACKS {
                    let mut c = SeqCase::full(alg, a.clone(), b.clone());
                    c.mode = mode;
                    if !f(c) {
                        return;
                    }
                }
            }
        }
    }
}

/// fixed large cases (size-gated code paths): LCS tables of 360 000 cells, long Myers/Patience runs
fn enum_large(_tier: Tier, f: &mut dyn FnMut(SeqCase) -> bool) {
    let mut inputs: Vec<(u8, Vec<u32>, Vec<u32>)> = vec![
        (2, lcg_seq(21, 600, 40), lcg_seq(22, 600, 40)),
        (2, lcg_seq(23, 530, 3), lcg_seq(24, 520, 3)),
        (0, lcg_seq(25, 2500, 6), lcg_seq(26, 2400, 6)),
        (1, lcg_seq(27, 2500, 6), lcg_seq(28, 2400, 6)),
    ];
    let a: Vec<u32> = (0..3000).collect();
    let mut b = a.clone();
    b.swap(10, 2000);
    b.remove(1500);
    inputs.push((1, a.clone(), b.clone()));
    inputs.push((0, a, b));
    // thousands of hook calls in one diff (beyond 4096), through Compact and Compact<Replace> as well
    for c0 in super::common::many_ops_cases() {
        for mode in [0u8, 2, 3] {
            let mut c = c0.clone();
            c.mode = mode;
            c.k = Some(1);
            if !f(c) {
                return;
            }
        }
    }
    // two common unique items (anchors) around unrelated stretches of 48-200 items on both sides, and a
    // third anchor behind another such stretch
    for gap in [48usize, 60, 200] {
        let cyc = |base: u32, n: usize| -> Vec<u32> { (0..n).map(|i| base + (i % 3) as u32).collect() };
        let mut a = vec![1u32];
        a.extend(cyc(10, gap));
        a.push(2);
        a.extend(cyc(30, gap + 5));
        a.push(3);
        let mut b = vec![1u32];
        b.extend(cyc(20, gap));
        b.push(2);
        b.extend(cyc(40, gap + 1));
        b.push(3);
        for mode in [0u8, 1, 2, 3] {
            let mut c = SeqCase::full(1, a.clone(), b.clone());
            c.mode = mode;
            c.k = Some(1);
            if !f(c) {
                return;
            }
        }
    }
    // ONE NoFinishHook value used for two diffs
    for alg in 0..3u8 {
        let mut c = SeqCase::full(alg, vec![1, 2, 3, 4, 5], vec![1, 9, 3, 4, 6, 7]);
        c.mode = MODE_NF_REUSE;
        if !f(c) {
            return;
        }
    }
    for (alg, old, new) in inputs {
        for mode in [0u8, 1, 3, 6] {
            let mut c = SeqCase::full(alg, old.clone(), new.clone());
            c.mode = mode;
            c.k = Some(1);
            if !f(c) {
                return;
            }
        }
    }
}

impl Prop for C08 {
    type Case = SeqCase;
    const ID: &'static str = "C08";
    const LEVEL: &'static str = "fault_enumeration";
    fn rule() -> String {
        "full-range cases rotate through the entry points algorithms::diff, diff_slices and diff_slices_deadline (real deadline one hour ahead / virtual clock); cases = (algorithm, old, new, ranges, adapter stack in {bare, Replace, Compact, Compact<Replace>, NoFinishHook, &mut, Replace<NoFinishHook>, Replace<&mut>, Replace<Replace>, a captured op list with Replace ops replayed through DiffOp::apply_to_hook into Replace, ONE Replace / Compact<Replace> adapter instance used for two diffs one of which is over empty ranges}, hook flavour in {overrides replace, default replace}, deadline in {none, virtual clock expiring at probe 0, 1, 3}); for each case the success log is recorded and then EVERY call index k of that log is made to fail in a separate execution (fault enumeration; 'executions' counts them). Oracle: finish exactly once and last (never through NoFinishHook, which otherwise forwards the bare run unchanged); failing call k => diff returns exactly Err(k), the hook saw exactly k+1 calls and they are the first k+1 calls of the success log; default-replace log == overriding log with replace expanded to delete+insert; two diffs through one adapter == the two diffs through fresh adapters one after the other; a stage of hook methods called by hand: replace(o,ol,n,nl) incl. empty sides on a hook without override == delete then insert, directly and through &mut / NoFinishHook / Replace. Non-trivial = success log has >= 3 calls incl. a change; distinct = distinct serialized case.".into()
    }
    fn assumptions() -> Vec<String> {
        vec!["the failing hook returns its call index as the error value, so 'precisely that error' is checked by value".into()]
    }
    fn stages(tier: Tier) -> Vec<Stage<SeqCase>> {
        vec![
            Stage {
                name: "enum-small",
                kind: StageKind::Enumerate {
                    scope: format!("all (old,new) over {{0,1}} with lengths <= {} x 3 algorithms x 12 stacks x 2 hook flavours x 4 deadline variants x every failing call index", tier.pick(4, 5)),
                    exhaustive: true,
                    gen: enum_small,
                },
            },
            Stage {
                name: "direct-calls",
                kind: StageKind::Enumerate {
                    scope: "replace(o, ol, n, nl) for o, n in 0..3 and ol, nl in 0..4 (empty sides included) called by hand on a hook without a replace override: directly, through &mut, &mut &mut, NoFinishHook and Replace".into(),
                    exhaustive: true,
                    gen: enum_direct,
                },
            },
            Stage {
                name: "large",
                kind: StageKind::Enumerate {
                    scope: "6 fixed large inputs (LCS 600x600 and 530x520, Myers/Patience 2500 vs 2400 over 6 letters and 3000 distinct items with a swap) x 4 stacks, and 6 diffs with thousands of hook calls (beyond 4096) x {bare, Compact, Compact<Replace>}; success log + 6 sampled failing call indices; one NoFinishHook value used for two diffs and a call by hand; Patience over three anchors separated by unrelated stretches of 48 / 60 / 200 items x 4 stacks".into(),
                    exhaustive: true,
                    gen: enum_large,
                },
            },
            Stage { name: "random", kind: StageKind::Random { strategy: strat, cases: tier.pick(200_000, 1_500_000) } },
        ]
    }
    fn check(case: &SeqCase, obs: &mut Obs) -> Verdict {
        check_case(case, obs)
    }
}
