//! Engine: staged generation (regressions -> enumeration -> random/proptest), sharded over
//! worker threads, shrinking, replay files, evidence files, exit codes.
//!
//! A run is a pure function of (tree, VERIF_SEED, tier): every random choice is drawn from
//! proptest strategies seeded from VERIF_SEED; no wall clock, no own RNG, no map iteration order
//! enters a verdict.

use proptest::strategy::{BoxedStrategy, Strategy, ValueTree};
use proptest::test_runner::{Config, RngAlgorithm, TestRng, TestRunner};
use serde::de::DeserializeOwned;
use serde::Serialize;
use serde_json::{json, Value};
use std::cell::RefCell;
use std::collections::hash_map::DefaultHasher;
use std::collections::{BTreeMap, HashSet};
use std::fmt::Debug;
use std::hash::{Hash, Hasher};
use std::panic::{catch_unwind, AssertUnwindSafe};
use std::sync::atomic::{AtomicBool, Ordering};
use std::sync::Arc;
use std::time::Instant;

pub const SHARDS: usize = 16;

#[derive(Clone, Copy, PartialEq, Eq, Debug)]
pub enum Tier {
    Quick,
    Thorough,
}

impl Tier {
    pub fn name(self) -> &'static str {
        match self {
            Tier::Quick => "quick",
            Tier::Thorough => "thorough",
        }
    }
    /// picks by tier
    pub fn pick<T>(self, quick: T, thorough: T) -> T {
        match self {
            Tier::Quick => quick,
            Tier::Thorough => thorough,
        }
    }
}

/// Result of evaluating the oracle on one case.
#[derive(Clone, Debug, PartialEq)]
pub enum Verdict {
    Pass,
    /// the case fails, but only because of the known finding with this key (attributed)
    Known(&'static str),
    Fail(String),
}

/// What a check observed about a case (for the evidence file).
#[derive(Default, Debug)]
pub struct Obs {
    pub nontrivial: bool,
    pub classes: Vec<&'static str>,
    /// number of library executions this case stood for (fault enumeration: one per fault point)
    pub executions: u64,
    /// measured quantities; the evidence reports the maximum over all cases
    pub metrics: Vec<(&'static str, f64)>,
}

impl Obs {
    pub fn class(&mut self, c: &'static str) {
        if !self.classes.contains(&c) {
            self.classes.push(c);
        }
    }
    pub fn metric(&mut self, name: &'static str, v: f64) {
        self.metrics.push((name, v));
    }
    pub fn class_if(&mut self, cond: bool, c: &'static str) {
        if cond {
            self.class(c);
        }
    }
}

pub enum StageKind<C> {
    /// random structured generation (proptest strategy built inside each worker)
    Random {
        strategy: fn(Tier) -> BoxedStrategy<C>,
        cases: u64,
    },
    /// size-ordered enumeration; `exhaustive` says the stated scope is covered completely
    Enumerate {
        scope: String,
        exhaustive: bool,
        gen: fn(Tier, &mut dyn FnMut(C) -> bool),
    },
}

pub struct Stage<C> {
    pub name: &'static str,
    pub kind: StageKind<C>,
}

pub trait Prop: 'static {
    type Case: Clone + Debug + Send + Serialize + DeserializeOwned + 'static;
    const ID: &'static str;
    /// evidence level: "exploration" or "fault_enumeration"
    const LEVEL: &'static str = "exploration";
    fn rule() -> String;
    fn assumptions() -> Vec<String>;
    fn stages(tier: Tier) -> Vec<Stage<Self::Case>>;
    fn check(case: &Self::Case, obs: &mut Obs) -> Verdict;
    /// human readable rendering of a case for the evidence samples
    fn describe(case: &Self::Case) -> Value {
        serde_json::to_value(case).unwrap_or(Value::Null)
    }
    /// stricter re-check used by --replay (e.g. more repetitions for C20)
    fn check_replay(case: &Self::Case, obs: &mut Obs) -> Verdict {
        Self::check(case, obs)
    }
}

// ------------------------------------------------------------------------------------------
// panic classification

thread_local! {
    static LAST_PANIC: RefCell<Option<(String, String)>> = RefCell::new(None);
}

pub const LIB_FAULT_PREFIX: &str = "VERIF-LIB-FAULT";

pub fn install_panic_hook() {
    std::panic::set_hook(Box::new(|info| {
        let loc = info
            .location()
            .map(|l| format!("{}:{}", l.file(), l.line()))
            .unwrap_or_default();
        let msg = if let Some(s) = info.payload().downcast_ref::<&str>() {
            s.to_string()
        } else if let Some(s) = info.payload().downcast_ref::<String>() {
            s.clone()
        } else {
            "<non-string panic>".to_string()
        };
        LAST_PANIC.with(|p| *p.borrow_mut() = Some((loc, msg)));
    }));
}

fn take_panic() -> (String, String) {
    LAST_PANIC
        .with(|p| p.borrow_mut().take())
        .unwrap_or_else(|| (String::new(), "<unknown panic>".into()))
}

/// Is this panic attributable to the library under test (as opposed to harness code)?
pub fn panic_is_library(loc: &str, msg: &str) -> bool {
    msg.starts_with(LIB_FAULT_PREFIX)
        || loc.starts_with("/repo/")
        || loc.contains("/bstr-")
        || loc.contains("/unicode-segmentation-")
        || loc.contains("/similar")
        // panics raised inside std without #[track_caller] (Instant + Duration overflow, capacity
        // overflow, BTreeMap internals ...): harness code is written not to provoke those, so they
        // are attributed to the library call that was in progress
        || loc.starts_with("/rustc/")
        || loc.starts_with("library/")
}

/// Runs `f` (which calls into the library); a library panic becomes `Err(description)`.
/// A panic raised by harness code is re-raised (ends as exit 2).
pub fn guard<R>(f: impl FnOnce() -> R) -> Result<R, String> {
    match catch_unwind(AssertUnwindSafe(f)) {
        Ok(r) => Ok(r),
        Err(payload) => {
            let (loc, msg) = take_panic();
            if panic_is_library(&loc, &msg) {
                Err(format!("panic at {}: {}", loc, msg))
            } else {
                LAST_PANIC.with(|p| *p.borrow_mut() = Some((loc, msg)));
                std::panic::resume_unwind(payload)
            }
        }
    }
}

#[derive(Debug)]
pub struct HarnessBug(pub String);

/// Evaluates a check, converting library panics into `Fail` and harness panics into `HarnessBug`.
pub fn eval<P: Prop>(case: &P::Case, obs: &mut Obs, replay: bool) -> Result<Verdict, HarnessBug> {
    reset_thread_state();
    let r = catch_unwind(AssertUnwindSafe(|| {
        if replay {
            P::check_replay(case, obs)
        } else {
            P::check(case, obs)
        }
    }));
    reset_thread_state();
    match r {
        Ok(v) => Ok(v),
        Err(_) => {
            let (loc, msg) = take_panic();
            if panic_is_library(&loc, &msg) {
                Ok(Verdict::Fail(format!("library panic at {}: {}", loc, msg)))
            } else {
                Err(HarnessBug(format!("harness panic at {}: {}", loc, msg)))
            }
        }
    }
}

/// resets the thread-local hook state of the library so that no state leaks between cases
pub fn reset_thread_state() {
    similar::verif::clock::install(None);
    similar::verif::swap::set_repair(false);
    similar::verif::swap::reset_swaps();
    crate::oracle::counting::reset();
}

// ------------------------------------------------------------------------------------------
// statistics

pub struct Stats {
    pub evaluations: u64,
    pub executions: u64,
    pub nontrivial: HashSet<u64>,
    pub nontrivial_total: u64,
    pub classes: BTreeMap<&'static str, u64>,
    pub metrics_max: BTreeMap<&'static str, f64>,
    pub known_hits: BTreeMap<&'static str, (u64, Option<Value>)>,
    pub first_samples: Vec<Value>,
    pub nt_samples: Vec<Value>,
    pub per_stage: Vec<Value>,
}

impl Stats {
    pub fn new() -> Self {
        Stats {
            evaluations: 0,
            executions: 0,
            nontrivial: HashSet::new(),
            nontrivial_total: 0,
            classes: BTreeMap::new(),
            metrics_max: BTreeMap::new(),
            known_hits: BTreeMap::new(),
            first_samples: vec![],
            nt_samples: vec![],
            per_stage: vec![],
        }
    }
    fn merge(&mut self, o: Stats) {
        self.evaluations += o.evaluations;
        self.executions += o.executions;
        self.nontrivial_total += o.nontrivial_total;
        self.nontrivial.extend(o.nontrivial);
        for (k, v) in o.classes {
            *self.classes.entry(k).or_insert(0) += v;
        }
        for (k, v) in o.metrics_max {
            let e = self.metrics_max.entry(k).or_insert(v);
            if v > *e {
                *e = v;
            }
        }
        for (k, (n, w)) in o.known_hits {
            let e = self.known_hits.entry(k).or_insert((0, None));
            e.0 += n;
            if e.1.is_none() {
                e.1 = w;
            }
        }
        for s in o.first_samples {
            if self.first_samples.len() < 3 {
                self.first_samples.push(s);
            }
        }
        for s in o.nt_samples {
            if self.nt_samples.len() < 8 {
                self.nt_samples.push(s);
            }
        }
    }
}

pub fn stable_hash<T: Serialize>(v: &T) -> u64 {
    let s = serde_json::to_string(v).unwrap_or_default();
    let mut h = DefaultHasher::new();
    s.hash(&mut h);
    h.finish()
}

/// evidence samples stay readable: very large cases are abbreviated
fn sample_of<P: Prop>(case: &P::Case) -> Value {
    let d = P::describe(case);
    let s = d.to_string();
    if s.len() > 1500 {
        json!({ "abbreviated_case": format!("{}…", s.chars().take(1200).collect::<String>()), "serialized_length": s.len() })
    } else {
        d
    }
}

fn record<P: Prop>(stats: &mut Stats, case: &P::Case, obs: &Obs, verdict: &Verdict, shard: usize) {
    stats.evaluations += 1;
    stats.executions += obs.executions.max(1);
    for c in &obs.classes {
        *stats.classes.entry(c).or_insert(0) += 1;
    }
    for (k, v) in &obs.metrics {
        let e = stats.metrics_max.entry(k).or_insert(*v);
        if *v > *e {
            *e = *v;
        }
    }
    if obs.nontrivial {
        stats.nontrivial_total += 1;
        let fresh = stats.nontrivial.insert(stable_hash(case));
        // sample a few non-trivial cases, deterministically: the first ones of low shards
        if fresh && shard < 4 && stats.nt_samples.len() < 2 {
            stats.nt_samples.push(sample_of::<P>(case));
        }
    }
    if shard == 0 && stats.first_samples.len() < 2 {
        stats.first_samples.push(sample_of::<P>(case));
    }
    if let Verdict::Known(k) = verdict {
        let e = stats.known_hits.entry(k).or_insert((0, None));
        e.0 += 1;
        if e.1.is_none() {
            e.1 = Some(sample_of::<P>(case));
        }
    }
}

// ------------------------------------------------------------------------------------------
// seeds

pub fn derive_seed(seed: u64, prop: &str, stage: usize, shard: usize) -> [u8; 32] {
    let mut out = [0u8; 32];
    for i in 0..4 {
        let mut h = DefaultHasher::new();
        (seed, prop, stage as u64, shard as u64, i as u64, 0x5eed_u64).hash(&mut h);
        out[i * 8..i * 8 + 8].copy_from_slice(&h.finish().to_le_bytes());
    }
    out
}

pub fn new_runner(seed: [u8; 32]) -> TestRunner {
    let mut cfg = Config::default();
    cfg.failure_persistence = None;
    cfg.max_global_rejects = 1 << 20;
    cfg.max_local_rejects = 1 << 16;
    TestRunner::new_with_rng(cfg, TestRng::from_seed(RngAlgorithm::ChaCha, &seed))
}

/// A runner whose "randomness" is the given byte string (used by the fuzz targets: the fuzzer's
/// input drives the very same strategies as the random stage).  Needs the patched PassThrough RNG
/// of /verif/vendor/proptest (see vendor/PATCH.md): filler instead of zeros after exhaustion, no
/// halving of the input on RNG forks.
pub fn passthrough_runner(data: &[u8]) -> TestRunner {
    let mut cfg = Config::default();
    cfg.failure_persistence = None;
    TestRunner::new_with_rng(cfg, TestRng::from_seed(RngAlgorithm::PassThrough, data))
}

// ------------------------------------------------------------------------------------------
// shrinking (standard simplify/complicate loop over a proptest value tree)

pub fn shrink_tree<T: Debug, VT: ValueTree<Value = T>>(
    tree: &mut VT,
    max_iters: u32,
    mut fails: impl FnMut(&T) -> bool,
) -> T {
    let mut last_fail = tree.current();
    let mut iters = 0;
    if !tree.simplify() {
        return last_fail;
    }
    loop {
        iters += 1;
        if iters > max_iters {
            break;
        }
        let cur = tree.current();
        if fails(&cur) {
            last_fail = cur;
            if !tree.simplify() {
                break;
            }
        } else if !tree.complicate() {
            break;
        }
    }
    last_fail
}

// ------------------------------------------------------------------------------------------
// violations, replay files

#[derive(Debug, Clone)]
pub struct Violation {
    pub stage: String,
    /// ordering key: enumeration index (enumeration stages) or shard (random stages)
    pub order: u64,
    pub shard: usize,
    pub case: Value,
    pub message: String,
    pub replay_path: Option<String>,
}

pub fn verif_root() -> String {
    std::env::var("VERIF_ROOT").unwrap_or_else(|_| "/verif".to_string())
}

fn write_replay(prop: &str, seed: u64, v: &Violation) -> String {
    let dir = format!("{}/replays", verif_root());
    let _ = std::fs::create_dir_all(&dir);
    let h = {
        let mut h = DefaultHasher::new();
        v.case.to_string().hash(&mut h);
        h.finish()
    };
    let path = format!("{}/{}-{}-{:016x}.json", dir, prop, seed, h);
    let doc = json!({
        "property": prop,
        "stage": v.stage,
        "seed": seed,
        "message": v.message,
        "case": v.case,
    });
    std::fs::write(&path, serde_json::to_string_pretty(&doc).unwrap()).expect("write replay file");
    path
}

// ------------------------------------------------------------------------------------------
// known findings file

#[derive(Debug, Clone)]
pub struct KnownEntry {
    pub property: String,
    pub key: String,
    pub line: String,
}

pub fn load_known_findings() -> Vec<KnownEntry> {
    let path = format!("{}/KNOWN_FINDINGS.txt", verif_root());
    let mut out = vec![];
    if let Ok(s) = std::fs::read_to_string(&path) {
        for line in s.lines() {
            let line = line.trim();
            if !line.starts_with("known:") {
                continue;
            }
            let mut property = String::new();
            let mut key = String::new();
            for tok in line.split_whitespace() {
                if let Some(v) = tok.strip_prefix("property=") {
                    property = v.to_string();
                }
                if let Some(v) = tok.strip_prefix("key=") {
                    key = v.to_string();
                }
            }
            out.push(KnownEntry {
                property,
                key,
                line: line.to_string(),
            });
        }
    }
    out
}

// ------------------------------------------------------------------------------------------
// the run

pub struct RunResult {
    pub exit: i32,
}

struct ShardOut {
    stats: Stats,
    violation: Option<Violation>,
    bug: Option<String>,
}

fn run_random_shard<P: Prop>(
    tier: Tier,
    stage_idx: usize,
    stage_name: &'static str,
    mk: fn(Tier) -> BoxedStrategy<P::Case>,
    cases: u64,
    seed: u64,
    shard: usize,
    stop: &AtomicBool,
    known: &HashSet<String>,
) -> ShardOut {
    let mut stats = Stats::new();
    let strategy = mk(tier);
    let mut runner = new_runner(derive_seed(seed, P::ID, stage_idx, shard));
    let n = cases / SHARDS as u64 + if (shard as u64) < cases % SHARDS as u64 { 1 } else { 0 };
    for _ in 0..n {
        if stop.load(Ordering::Relaxed) {
            break;
        }
        let mut tree = match strategy.new_tree(&mut runner) {
            Ok(t) => t,
            Err(e) => {
                return ShardOut {
                    stats,
                    violation: None,
                    bug: Some(format!("generator rejected too much: {}", e)),
                }
            }
        };
        let case = tree.current();
        let mut obs = Obs::default();
        let verdict = match eval::<P>(&case, &mut obs, false) {
            Ok(v) => v,
            Err(HarnessBug(b)) => {
                return ShardOut {
                    stats,
                    violation: None,
                    bug: Some(format!("{} on case {}", b, serde_json::to_string(&case).unwrap_or_default())),
                }
            }
        };
        let verdict = demote_unlisted(verdict, P::ID, known);
        record::<P>(&mut stats, &case, &obs, &verdict, shard);
        if let Verdict::Fail(first_msg) = verdict {
            // shrink under "still a genuine failure"
            let mut bug = None;
            let min = shrink_tree(&mut tree, 4000, |c| {
                let mut o = Obs::default();
                match eval::<P>(c, &mut o, false) {
                    Ok(v) => matches!(demote_unlisted(v, P::ID, known), Verdict::Fail(_)),
                    Err(HarnessBug(b)) => {
                        bug = Some(b);
                        false
                    }
                }
            });
            let mut o = Obs::default();
            let msg = match eval::<P>(&min, &mut o, false) {
                Ok(Verdict::Fail(m)) => m,
                Ok(Verdict::Known(k)) => format!("unlisted known-finding key {}", k),
                _ => first_msg,
            };
            let _ = bug;
            return ShardOut {
                stats,
                violation: Some(Violation {
                    stage: stage_name.to_string(),
                    order: shard as u64,
                    shard,
                    case: serde_json::to_value(&min).unwrap(),
                    message: msg,
                    replay_path: None,
                }),
                bug: None,
            };
        }
    }
    ShardOut {
        stats,
        violation: None,
        bug: None,
    }
}

/// A `Known(key)` verdict only counts as known if the committed file lists that key for this
/// property; otherwise it is a genuine violation.
fn demote_unlisted(v: Verdict, prop: &str, known: &HashSet<String>) -> Verdict {
    match v {
        Verdict::Known(k) if !known.contains(&format!("{}:{}", prop, k)) => Verdict::Fail(format!(
            "violation attributed to finding '{}' which is not listed as known for {} in KNOWN_FINDINGS.txt",
            k, prop
        )),
        v => v,
    }
}

fn run_enum_shard<P: Prop>(
    tier: Tier,
    stage_name: &'static str,
    gen: fn(Tier, &mut dyn FnMut(P::Case) -> bool),
    shard: usize,
    stop: &AtomicBool,
    known: &HashSet<String>,
) -> ShardOut {
    let mut stats = Stats::new();
    let mut violation = None;
    let mut bug = None;
    let mut idx: u64 = 0;
    gen(tier, &mut |case: P::Case| -> bool {
        let mine = (idx % SHARDS as u64) as usize == shard;
        idx += 1;
        if !mine {
            return true;
        }
        if stop.load(Ordering::Relaxed) {
            return false;
        }
        let mut obs = Obs::default();
        let verdict = match eval::<P>(&case, &mut obs, false) {
            Ok(v) => v,
            Err(HarnessBug(b)) => {
                bug = Some(format!("{} on case {}", b, serde_json::to_string(&case).unwrap_or_default()));
                return false;
            }
        };
        let verdict = demote_unlisted(verdict, P::ID, known);
        record::<P>(&mut stats, &case, &obs, &verdict, shard);
        if let Verdict::Fail(msg) = verdict {
            // enumeration is size ordered: the first failure is already (near) minimal
            violation = Some(Violation {
                stage: stage_name.to_string(),
                order: idx - 1,
                shard,
                case: serde_json::to_value(&case).unwrap(),
                message: msg,
                replay_path: None,
            });
            return false;
        }
        true
    });
    ShardOut {
        stats,
        violation,
        bug,
    }
}

pub struct RunOpts {
    pub tier: Tier,
    pub seed: u64,
    /// multiply random case counts (used by long background sweeps)
    pub scale: f64,
    pub write_evidence: bool,
    pub fuzz_summary: Option<Value>,
}

pub fn run_property<P: Prop>(opts: &RunOpts) -> i32 {
    let t0 = Instant::now();
    install_panic_hook();
    let known_entries = load_known_findings();
    let known: HashSet<String> = known_entries
        .iter()
        .map(|e| format!("{}:{}", e.property, e.key))
        .collect();
    let mut total = Stats::new();
    let mut violations: Vec<Violation> = vec![];
    let mut exhaustive_scopes: Vec<String> = vec![];
    let mut all_enum_exhaustive = true;
    let mut any_enum = false;

    // (a) regressions
    let reg_dir = format!("{}/regressions/{}", verif_root(), P::ID);
    let mut reg_files: Vec<_> = std::fs::read_dir(&reg_dir)
        .map(|d| d.filter_map(|e| e.ok()).map(|e| e.path()).collect())
        .unwrap_or_default();
    reg_files.sort();
    let mut reg_count = 0;
    for path in reg_files {
        if path.extension().map_or(true, |e| e != "json") {
            continue;
        }
        let text = match std::fs::read_to_string(&path) {
            Ok(t) => t,
            Err(_) => continue,
        };
        let doc: Value = match serde_json::from_str(&text) {
            Ok(d) => d,
            Err(e) => {
                eprintln!("INCONCLUSIVE: bad regression file {}: {}", path.display(), e);
                return 2;
            }
        };
        let case: P::Case = match serde_json::from_value(doc["case"].clone()) {
            Ok(c) => c,
            Err(e) => {
                eprintln!("INCONCLUSIVE: bad regression case {}: {}", path.display(), e);
                return 2;
            }
        };
        let mut obs = Obs::default();
        let verdict = match eval::<P>(&case, &mut obs, true) {
            Ok(v) => v,
            Err(HarnessBug(b)) => {
                eprintln!("INCONCLUSIVE: {}", b);
                return 2;
            }
        };
        let verdict = demote_unlisted(verdict, P::ID, &known);
        record::<P>(&mut total, &case, &obs, &verdict, usize::MAX);
        reg_count += 1;
        if let Verdict::Fail(msg) = verdict {
            violations.push(Violation {
                stage: "regressions".into(),
                order: 0,
                shard: 0,
                case: doc["case"].clone(),
                message: format!("{} (regression file {})", msg, path.display()),
                replay_path: Some(path.display().to_string()),
            });
        }
    }
    total.per_stage.push(json!({"stage": "regressions", "cases": reg_count}));

    // (b), (c) stages
    let stages = P::stages(opts.tier);
    if violations.is_empty() {
        for (stage_idx, stage) in stages.iter().enumerate() {
            let stop = Arc::new(AtomicBool::new(false));
            let before = total.evaluations;
            let ts = Instant::now();
            let outs: Vec<ShardOut> = std::thread::scope(|s| {
                let mut handles = vec![];
                for shard in 0..SHARDS {
                    let stop = stop.clone();
                    let known = &known;
                    let tier = opts.tier;
                    let seed = opts.seed;
                    let scale = opts.scale;
                    let name = stage.name;
                    let h = match &stage.kind {
                        StageKind::Random { strategy, cases } => {
                            let mk = *strategy;
                            let cases = ((*cases as f64) * scale).ceil() as u64;
                            std::thread::Builder::new()
                                .stack_size(64 << 20)
                                .spawn_scoped(s, move || {
                                    install_panic_hook_thread();
                                    run_random_shard::<P>(tier, stage_idx, name, mk, cases, seed, shard, &stop, known)
                                })
                                .unwrap()
                        }
                        StageKind::Enumerate { gen, .. } => {
                            let gen = *gen;
                            std::thread::Builder::new()
                                .stack_size(64 << 20)
                                .spawn_scoped(s, move || {
                                    install_panic_hook_thread();
                                    run_enum_shard::<P>(tier, name, gen, shard, &stop, known)
                                })
                                .unwrap()
                        }
                    };
                    handles.push(h);
                }
                handles
                    .into_iter()
                    .map(|h| match h.join() {
                        Ok(o) => o,
                        Err(_) => ShardOut {
                            stats: Stats::new(),
                            violation: None,
                            bug: Some("worker thread panicked outside a check".into()),
                        },
                    })
                    .collect()
            });
            let mut stage_violation: Option<Violation> = None;
            for o in outs {
                if let Some(b) = o.bug {
                    eprintln!("INCONCLUSIVE: {} (stage {})", b, stage.name);
                    return 2;
                }
                if let Some(v) = o.violation {
                    if stage_violation.as_ref().map_or(true, |cur| v.order < cur.order) {
                        stage_violation = Some(v);
                    }
                }
                total.merge(o.stats);
            }
            let mut st = json!({
                "stage": stage.name,
                "cases": total.evaluations - before,
                "wall_s": ts.elapsed().as_secs_f64(),
            });
            match &stage.kind {
                StageKind::Enumerate { scope, exhaustive, .. } => {
                    any_enum = true;
                    st["kind"] = json!("enumeration");
                    st["scope"] = json!(scope);
                    st["exhaustive"] = json!(*exhaustive && stage_violation.is_none());
                    if *exhaustive && stage_violation.is_none() {
                        exhaustive_scopes.push(scope.clone());
                    } else {
                        all_enum_exhaustive = false;
                    }
                }
                StageKind::Random { .. } => {
                    st["kind"] = json!("random (proptest strategies, ChaCha seeded from VERIF_SEED)");
                }
            }
            total.per_stage.push(st);
            if let Some(v) = stage_violation {
                violations.push(v);
                break;
            }
        }
    }

    // report
    let mut exit = 0;
    for v in violations.iter_mut() {
        if v.message.chars().count() > 2500 {
            v.message = format!("{} … [message truncated, {} chars]", v.message.chars().take(2500).collect::<String>(), v.message.chars().count());
        }
        let path = match &v.replay_path {
            Some(p) => p.clone(),
            None => write_replay(P::ID, opts.seed, v),
        };
        v.replay_path = Some(path.clone());
        println!("VIOLATION property={} replay={}", P::ID, path);
        println!("  stage={} message={}", v.stage, v.message);
        println!("  case={}", v.case);
        exit = 1;
    }
    for (k, (n, w)) in &total.known_hits {
        let line = known_entries
            .iter()
            .find(|e| e.property == P::ID && e.key == *k)
            .map(|e| e.line.clone())
            .unwrap_or_default();
        println!(
            "KNOWN-FINDING: property={} key={} hits={} first_witness={} :: {}",
            P::ID,
            k,
            n,
            w.as_ref().map(|v| v.to_string()).unwrap_or_default(),
            line
        );
    }

    if opts.write_evidence {
        let mut samples = total.first_samples.clone();
        samples.extend(total.nt_samples.iter().cloned());
        if samples.is_empty() {
            samples.push(json!("no case generated"));
        }
        let mut coverage = json!({
            "evaluations": total.evaluations,
            "executions": total.executions,
            "distinct_nontrivial": total.nontrivial.len(),
            "nontrivial_total": total.nontrivial_total,
            "rule": P::rule(),
            "samples": samples,
            "classes": total.classes.iter().map(|(k, v)| (k.to_string(), json!(v))).collect::<serde_json::Map<_, _>>(),
            "stages": total.per_stage,
            "metrics_max": total.metrics_max.iter().map(|(k, v)| (k.to_string(), json!(v))).collect::<serde_json::Map<_, _>>(),
            "exhaustive": false,
            "all_enumerated_scopes_complete": any_enum && all_enum_exhaustive && exit == 0,
            "exhaustive_scopes": exhaustive_scopes,
            "known_finding_hits": total.known_hits.iter().map(|(k, (n, _))| (k.to_string(), json!(n))).collect::<serde_json::Map<_, _>>(),
            "shards": SHARDS,
        });
        if let Some(f) = &opts.fuzz_summary {
            coverage["fuzz"] = f.clone();
        }
        let ev = json!({
            "property_id": P::ID,
            "tier": opts.tier.name(),
            "seed": opts.seed,
            "level": P::LEVEL,
            "coverage": coverage,
            "assumptions": P::assumptions(),
            "wall_s": t0.elapsed().as_secs_f64(),
            "violations": violations.len(),
            "violation_details": violations.iter().map(|v| json!({"stage": v.stage, "message": v.message, "replay": v.replay_path, "case": v.case})).collect::<Vec<_>>(),
        });
        let dir = format!("{}/evidence", verif_root());
        let _ = std::fs::create_dir_all(&dir);
        std::fs::write(
            format!("{}/{}.json", dir, P::ID),
            serde_json::to_string_pretty(&ev).unwrap(),
        )
        .expect("write evidence");
    }
    println!(
        "{} {} seed={} evaluations={} executions={} distinct_nontrivial={} known_hits={} violations={} wall={:.1}s",
        P::ID,
        opts.tier.name(),
        opts.seed,
        total.evaluations,
        total.executions,
        total.nontrivial.len(),
        total.known_hits.values().map(|v| v.0).sum::<u64>(),
        violations.len(),
        t0.elapsed().as_secs_f64()
    );
    exit
}

fn install_panic_hook_thread() {
    // the hook is process wide; nothing to do per thread (kept for clarity)
}

/// `vcheck --replay <file>`: re-runs exactly one stored case against the current tree.
pub fn replay_file<P: Prop>(path: &str) -> i32 {
    install_panic_hook();
    let text = match std::fs::read_to_string(path) {
        Ok(t) => t,
        Err(e) => {
            eprintln!("INCONCLUSIVE: cannot read {}: {}", path, e);
            return 2;
        }
    };
    let doc: Value = match serde_json::from_str(&text) {
        Ok(d) => d,
        Err(e) => {
            eprintln!("INCONCLUSIVE: bad replay file: {}", e);
            return 2;
        }
    };
    let case: P::Case = match serde_json::from_value(doc["case"].clone()) {
        Ok(c) => c,
        Err(e) => {
            eprintln!("INCONCLUSIVE: bad case in replay file: {}", e);
            return 2;
        }
    };
    let known: HashSet<String> = load_known_findings()
        .iter()
        .map(|e| format!("{}:{}", e.property, e.key))
        .collect();
    let mut obs = Obs::default();
    match eval::<P>(&case, &mut obs, true) {
        Ok(v) => match demote_unlisted(v, P::ID, &known) {
            Verdict::Pass => {
                println!("replay {}: property {} holds on this case", path, P::ID);
                0
            }
            Verdict::Known(k) => {
                println!("KNOWN-FINDING: property={} key={} (replay {})", P::ID, k, path);
                0
            }
            Verdict::Fail(m) => {
                println!("VIOLATION property={} replay={}", P::ID, path);
                println!("  message={}", m);
                1
            }
        },
        Err(HarnessBug(b)) => {
            eprintln!("INCONCLUSIVE: {}", b);
            2
        }
    }
}

/// Fuzz entry: decode `data` through the property's first random strategy and run the oracle.
/// Returns Some(replay path) when a genuine violation was found.
pub fn fuzz_one<P: Prop>(data: &[u8], tier: Tier, known: &HashSet<String>) -> Option<(Value, String)> {
    let stages = P::stages(tier);
    let mk = stages.iter().find_map(|s| match &s.kind {
        StageKind::Random { strategy, .. } => Some(*strategy),
        _ => None,
    })?;
    let strategy = mk(tier);
    let mut runner = passthrough_runner(data);
    let tree = strategy.new_tree(&mut runner).ok()?;
    let case = tree.current();
    let mut obs = Obs::default();
    match eval::<P>(&case, &mut obs, false) {
        Ok(v) => match demote_unlisted(v, P::ID, known) {
            Verdict::Fail(m) => Some((serde_json::to_value(&case).unwrap(), m)),
            _ => None,
        },
        Err(HarnessBug(b)) => {
            eprintln!("HARNESS-BUG {}", b);
            None
        }
    }
}
