//! Shared generators (proptest strategies) and enumerators.  Every random choice is inside a
//! strategy; index-like choices use monotone mappings so shrinking moves towards small positions.

use proptest::collection::vec;
use proptest::prelude::*;
use serde::{Deserialize, Deserializer, Serialize, Serializer};

/// monotone map of a raw u16 onto 0..=max
pub fn pos(raw: u16, max: usize) -> usize {
    ((raw as u64 * (max as u64 + 1)) >> 16) as usize
}

// ------------------------------------------------------------------------------------------
// byte strings with a readable, lossless JSON form

#[derive(Clone, PartialEq, Eq, Hash, Default)]
pub struct BStr(pub Vec<u8>);

impl BStr {
    pub fn escaped(&self) -> String {
        escape_bytes(&self.0)
    }
    pub fn as_str(&self) -> Option<&str> {
        std::str::from_utf8(&self.0).ok()
    }
}

impl std::fmt::Debug for BStr {
    fn fmt(&self, f: &mut std::fmt::Formatter) -> std::fmt::Result {
        write!(f, "b\"{}\"", self.escaped())
    }
}

/// printable ASCII stays, everything else (and the backslash) becomes \xNN
pub fn escape_bytes(b: &[u8]) -> String {
    let mut s = String::new();
    for &c in b {
        if (0x20..0x7f).contains(&c) && c != b'\\' {
            s.push(c as char);
        } else if c == b'\n' {
            s.push_str("\\n");
        } else if c == b'\r' {
            s.push_str("\\r");
        } else if c == b'\t' {
            s.push_str("\\t");
        } else {
            s.push_str(&format!("\\x{:02x}", c));
        }
    }
    s
}

pub fn unescape_bytes(s: &str) -> Result<Vec<u8>, String> {
    let b = s.as_bytes();
    let mut out = vec![];
    let mut i = 0;
    while i < b.len() {
        if b[i] == b'\\' {
            match b.get(i + 1) {
                Some(b'n') => {
                    out.push(b'\n');
                    i += 2;
                }
                Some(b'r') => {
                    out.push(b'\r');
                    i += 2;
                }
                Some(b't') => {
                    out.push(b'\t');
                    i += 2;
                }
                Some(b'x') => {
                    let h = s.get(i + 2..i + 4).ok_or("short \\x escape")?;
                    out.push(u8::from_str_radix(h, 16).map_err(|e| e.to_string())?);
                    i += 4;
                }
                _ => return Err("bad escape".into()),
            }
        } else {
            out.push(b[i]);
            i += 1;
        }
    }
    Ok(out)
}

impl Serialize for BStr {
    fn serialize<S: Serializer>(&self, s: S) -> Result<S::Ok, S::Error> {
        s.serialize_str(&self.escaped())
    }
}
impl<'de> Deserialize<'de> for BStr {
    fn deserialize<D: Deserializer<'de>>(d: D) -> Result<Self, D::Error> {
        let s = String::deserialize(d)?;
        unescape_bytes(&s).map(BStr).map_err(serde::de::Error::custom)
    }
}

// ------------------------------------------------------------------------------------------
// sequence pairs

#[derive(Clone, Debug, PartialEq, Eq, Hash, Serialize, Deserialize)]
pub struct SeqCase {
    /// 0 Myers, 1 Patience, 2 Lcs
    pub alg: u8,
    pub old: Vec<u32>,
    pub new: Vec<u32>,
    pub or: (usize, usize),
    pub nr: (usize, usize),
    /// property specific variant selector (entry point / lookup flavour / stack ...)
    pub mode: u8,
    /// property specific fault position (deadline probe index / failing call index)
    #[serde(default)]
    pub k: Option<u64>,
}

impl SeqCase {
    pub fn full(alg: u8, old: Vec<u32>, new: Vec<u32>) -> SeqCase {
        let (a, b) = (old.len(), new.len());
        SeqCase { alg, old, new, or: (0, a), nr: (0, b), mode: 0, k: None }
    }
    pub fn is_full(&self) -> bool {
        self.or == (0, self.old.len()) && self.nr == (0, self.new.len())
    }
    pub fn old_r(&self) -> std::ops::Range<usize> {
        self.or.0..self.or.1
    }
    pub fn new_r(&self) -> std::ops::Range<usize> {
        self.nr.0..self.nr.1
    }
    pub fn old_slice(&self) -> &[u32] {
        &self.old[self.or.0..self.or.1]
    }
    pub fn new_slice(&self) -> &[u32] {
        &self.new[self.nr.0..self.nr.1]
    }
}

#[derive(Clone, Debug)]
pub struct Edit {
    kind: u8,
    at: u16,
    len: u8,
    val: u32,
}

pub fn edit() -> impl Strategy<Value = Edit> {
    (0u8..8, any::<u16>(), 1u8..6, 0u32..64).prop_map(|(kind, at, len, val)| Edit { kind, at, len, val })
}

pub fn apply_edits(old: &[u32], edits: &[Edit], k: u32) -> Vec<u32> {
    let mut v = old.to_vec();
    for e in edits {
        let n = v.len();
        match e.kind {
            0 => {
                // delete run
                if n > 0 {
                    let p = pos(e.at, n - 1);
                    let l = (e.len as usize).min(n - p);
                    v.drain(p..p + l);
                }
            }
            1 => {
                // insert run of one value
                let p = pos(e.at, n);
                for _ in 0..e.len.min(3) {
                    v.insert(p, e.val % k);
                }
            }
            2 => {
                // substitute
                if n > 0 {
                    let p = pos(e.at, n - 1);
                    v[p] = e.val % k;
                }
            }
            3 => {
                // duplicate a run in place
                if n > 0 {
                    let p = pos(e.at, n - 1);
                    let l = (e.len as usize).min(n - p);
                    let run: Vec<u32> = v[p..p + l].to_vec();
                    for (i, x) in run.into_iter().enumerate() {
                        v.insert(p + l + i, x);
                    }
                }
            }
            4 => {
                // block move to the front / back
                if n > 1 {
                    let p = pos(e.at, n - 1);
                    let l = (e.len as usize).min(n - p);
                    let run: Vec<u32> = v.drain(p..p + l).collect();
                    if e.val % 2 == 0 {
                        v.extend(run);
                    } else {
                        for (i, x) in run.into_iter().enumerate() {
                            v.insert(i, x);
                        }
                    }
                }
            }
            5 => {
                // reverse a run
                if n > 1 {
                    let p = pos(e.at, n - 1);
                    let l = (e.len as usize).min(n - p);
                    v[p..p + l].reverse();
                }
            }
            6 => {
                // truncate
                let p = pos(e.at, n);
                v.truncate(p.max(n.saturating_sub(e.len as usize)));
            }
            _ => {
                // insert a fresh (unique) value
                let p = pos(e.at, n);
                v.insert(p, 500 + e.val);
            }
        }
    }
    v
}

pub fn alphabet() -> impl Strategy<Value = u32> {
    prop_oneof![Just(1u32), Just(2), Just(2), Just(3), Just(3), Just(4), Just(8), Just(64)]
}

/// basic (old,new) pair with lengths up to `max_len`
pub fn base_pair(max_len: usize) -> BoxedStrategy<(Vec<u32>, Vec<u32>)> {
    let l = max_len;
    prop_oneof![
        // independent over a small alphabet
        3 => (alphabet(), vec(0u32..64, 0..=l), vec(0u32..64, 0..=l)).prop_map(|(k, a, b)| (
            a.into_iter().map(|x| x % k).collect(),
            b.into_iter().map(|x| x % k).collect()
        )),
        // new = mutate(old)
        4 => (alphabet(), vec(0u32..64, 0..=l), vec(edit(), 0..=6)).prop_map(|(k, a, es)| {
            let a: Vec<u32> = a.into_iter().map(|x| x % k).collect();
            let b = apply_edits(&a, &es, k);
            (a, b)
        }),
        // periodic
        1 => (1usize..6, 0..=l, 0..=l, 0usize..5, vec(edit(), 0..=2)).prop_map(|(p, n, m, sh, es)| {
            let a: Vec<u32> = (0..n).map(|i| (i % p) as u32).collect();
            let b: Vec<u32> = (0..m).map(|i| ((i + sh) % p) as u32).collect();
            let b = apply_edits(&b, &es, p as u32);
            (a, b)
        }),
        // all distinct on each side (permutation-like): many unique items
        1 => (vec(0u32..40, 0..=l.min(40)), vec(0u32..40, 0..=l.min(40))).prop_map(|(a, b)| (dedup(a), dedup(b))),
    ]
    .boxed()
}

fn dedup(v: Vec<u32>) -> Vec<u32> {
    let mut seen = std::collections::HashSet::new();
    v.into_iter().filter(|x| seen.insert(*x)).collect()
}

/// adds unique markers (values >= 1000) to both sides at independent positions
pub fn with_markers(base: BoxedStrategy<(Vec<u32>, Vec<u32>)>) -> BoxedStrategy<(Vec<u32>, Vec<u32>)> {
    (base, vec((any::<u16>(), any::<u16>(), 0u8..8), 0..=8))
        .prop_map(|((mut a, mut b), ms)| {
            for (i, (pa, pb, fl)) in ms.iter().enumerate() {
                let m = 1000 + i as u32;
                let ia = pos(*pa, a.len());
                a.insert(ia, m);
                let ib = pos(*pb, b.len());
                b.insert(ib, m);
                // occasionally make a would-be anchor non-unique on one side
                if *fl == 0 {
                    let ic = pos(pa.wrapping_mul(31), a.len());
                    a.insert(ic, m);
                } else if *fl == 1 {
                    let ic = pos(pb.wrapping_mul(31), b.len());
                    b.insert(ic, m);
                }
            }
            (a, b)
        })
        .boxed()
}

pub fn with_affixes(base: BoxedStrategy<(Vec<u32>, Vec<u32>)>) -> BoxedStrategy<(Vec<u32>, Vec<u32>)> {
    (base, vec(0u32..3, 0..=4), vec(0u32..3, 0..=4))
        .prop_map(|((a, b), pre, suf)| {
            let mut o = pre.clone();
            o.extend(a);
            o.extend(suf.iter());
            let mut n = pre;
            n.extend(b);
            n.extend(suf.iter());
            (o, n)
        })
        .boxed()
}

/// permutation-like pairs: `n` distinct items on each side (all unique), new = old rearranged by
/// block moves / reversals / a few deletions and fresh insertions (crossing anchors)
pub fn perm_pair(nmin: usize, nmax: usize) -> BoxedStrategy<(Vec<u32>, Vec<u32>)> {
    (nmin..=nmax, vec((0u8..5, any::<u16>(), any::<u16>(), 1u8..40), 0..=6), vec((0u8..5, any::<u16>(), any::<u16>(), 1u8..40), 1..=8))
        .prop_map(|(n, e0, e1)| {
            let rearr = |v: &mut Vec<u32>, es: &[(u8, u16, u16, u8)], fresh: u32| {
                for (i, (kind, at, to, len)) in es.iter().enumerate() {
                    let l = v.len();
                    if l < 2 {
                        break;
                    }
                    let p = pos(*at, l - 1);
                    let k = (*len as usize).min(l - p);
                    match kind {
                        0 | 1 => {
                            let run: Vec<u32> = v.drain(p..p + k).collect();
                            let q = pos(*to, v.len());
                            for (j, x) in run.into_iter().enumerate() {
                                v.insert(q + j, x);
                            }
                        }
                        2 => v[p..p + k].reverse(),
                        3 => {
                            v.drain(p..p + k.min(3));
                        }
                        _ => v.insert(p, fresh + i as u32),
                    }
                }
            };
            let mut a: Vec<u32> = (0..n as u32).collect();
            rearr(&mut a, &e0, 1_000_000);
            let mut b = a.clone();
            rearr(&mut b, &e1, 2_000_000);
            (a, b)
        })
        .boxed()
}

/// The shared sequence-pair mixture.
pub fn seq_pair(max_len: usize) -> BoxedStrategy<(Vec<u32>, Vec<u32>)> {
    let dense = 12.min(max_len);
    let mid = 60.min(max_len);
    prop_oneof![
        5 => base_pair(dense),
        2 => with_affixes(base_pair(dense)),
        2 => with_markers(base_pair(dense)),
        3 => base_pair(mid),
        1 => with_affixes(with_markers(base_pair(mid))),
        1 => base_pair(max_len),
    ]
    .boxed()
}

/// raw range selectors -> in-bounds ranges (full with probability 1/2 when `sub` is set)
pub fn ranges_from(raw: (bool, u16, u16, u16, u16), old_len: usize, new_len: usize) -> ((usize, usize), (usize, usize)) {
    let (full, a, b, c, d) = raw;
    if full {
        return ((0, old_len), (0, new_len));
    }
    let os = pos(a, old_len);
    let oe = os + pos(b, old_len - os);
    let ns = pos(c, new_len);
    let ne = ns + pos(d, new_len - ns);
    ((os, oe), (ns, ne))
}

pub fn raw_ranges(sub: bool) -> BoxedStrategy<(bool, u16, u16, u16, u16)> {
    if sub {
        (any::<bool>(), any::<u16>(), any::<u16>(), any::<u16>(), any::<u16>()).boxed()
    } else {
        Just((true, 0u16, 0u16, 0u16, 0u16)).boxed()
    }
}

pub fn seq_case(max_len: usize, sub: bool, modes: u8) -> BoxedStrategy<SeqCase> {
    (0u8..3, seq_pair(max_len), raw_ranges(sub), 0u8..modes.max(1))
        .prop_map(|(alg, (old, new), rr, mode)| {
            let (or, nr) = ranges_from(rr, old.len(), new.len());
            SeqCase { alg, old, new, or, nr, mode, k: None }
        })
        .boxed()
}

/// all sequences over {0..k-1} of length <= max_len, in size order
pub fn all_seqs(k: u32, max_len: usize) -> Vec<Vec<u32>> {
    let mut out: Vec<Vec<u32>> = vec![vec![]];
    let mut layer: Vec<Vec<u32>> = vec![vec![]];
    for _ in 0..max_len {
        let mut next = vec![];
        for s in &layer {
            for x in 0..k {
                let mut t = s.clone();
                t.push(x);
                next.push(t);
            }
        }
        out.extend(next.iter().cloned());
        layer = next;
    }
    out
}

/// all in-bounds (start,end) ranges of a sequence of length n
pub fn all_ranges(n: usize) -> Vec<(usize, usize)> {
    let mut v = vec![];
    for s in 0..=n {
        for e in s..=n {
            v.push((s, e));
        }
    }
    v
}

// ------------------------------------------------------------------------------------------
// text

pub const ATOMS: &[&str] = &[
    "a", "b", "c", "\n", " ", "foo", "bar", "\r\n", "\r", "\t", "x.y", "can't", "(", ")", "  ", "\n\r",
    "\u{a0}", "\u{2028}", "\u{2029}", "\u{3000}", "\u{85}", "\x0b", "\x0c", "e\u{301}",
    "\u{1F468}\u{200D}\u{1F469}\u{200D}\u{1F467}", "\u{1F1E6}\u{1F1F9}", "\u{2744}\u{FE0F}", "\0", "\x01", ".", ",",
    "-y", "+z", " x", "@@ -1 +1 @@", "\\ No newline at end of file", "\u{f6}", "\u{65e5}\u{672c}", "1", "22",
    "--- a", "+++ b", "\\", "\u{feff}", "\u{fffd}", "\u{1F600}", "\u{10348}",
    // code points at the edges of the UTF-8 length classes and of the combining / Greek blocks
    "\u{7f}", "\u{80}", "\u{bf}", "\u{36f}", "\u{370}", "\u{37e}", "\u{7ff}", "\u{800}", "\u{ffff}", "\u{10000}", "\u{10ffff}",
];

pub const BAD: &[&[u8]] = &[
    b"\x80", b"\xc3", b"\xe2\x82", b"\xf0\x9f\x80", b"\xc0\xaf", b"\xed\xa0\x80", b"\xff", b"\xf5", b"\xf0\x9f",
    b"\xc3\x28", b"\xbf",
];

/// atom index -> bytes; indices >= ATOMS.len() select invalid UTF-8 fragments
pub fn atom_bytes(i: usize) -> &'static [u8] {
    if i < ATOMS.len() {
        ATOMS[i].as_bytes()
    } else {
        BAD[(i - ATOMS.len()) % BAD.len()]
    }
}

pub fn n_atoms(invalid: bool) -> usize {
    if invalid {
        ATOMS.len() + BAD.len()
    } else {
        ATOMS.len()
    }
}

pub fn concat_atoms(ix: &[usize]) -> Vec<u8> {
    let mut v = vec![];
    for &i in ix {
        v.extend_from_slice(atom_bytes(i));
    }
    v
}

/// a text as a list of atom indices
pub fn atoms(max: usize, invalid: bool) -> BoxedStrategy<Vec<usize>> {
    let n = n_atoms(invalid);
    // bias towards the first (simple) atoms so that repeats are common
    vec(prop_oneof![3 => 0usize..8, 2 => 0usize..n], 0..=max).boxed()
}

#[derive(Clone, Debug)]
pub struct AEdit {
    kind: u8,
    at: u16,
    atom: usize,
}

fn aedit(n: usize) -> impl Strategy<Value = AEdit> {
    (0u8..4, any::<u16>(), prop_oneof![3 => 0usize..8, 2 => 0usize..n]).prop_map(|(kind, at, atom)| AEdit { kind, at, atom })
}

pub fn apply_aedits(old: &[usize], es: &[AEdit]) -> Vec<usize> {
    let mut v = old.to_vec();
    for e in es {
        let n = v.len();
        match e.kind {
            0 => {
                if n > 0 {
                    v.remove(pos(e.at, n - 1));
                }
            }
            1 => v.insert(pos(e.at, n), e.atom),
            2 => {
                if n > 0 {
                    v[pos(e.at, n - 1)] = e.atom;
                }
            }
            _ => {
                if n > 0 {
                    let p = pos(e.at, n - 1);
                    let x = v[p];
                    v.insert(p, x);
                }
            }
        }
    }
    v
}

/// (old, new) texts as bytes
pub fn text_pair(max_atoms: usize, invalid: bool) -> BoxedStrategy<(BStr, BStr)> {
    let n = n_atoms(invalid);
    prop_oneof![
        2 => (atoms(max_atoms, invalid), atoms(max_atoms, invalid)).prop_map(|(a, b)| (BStr(concat_atoms(&a)), BStr(concat_atoms(&b)))),
        5 => (atoms(max_atoms, invalid), vec(aedit(n), 0..=5)).prop_map(|(a, es)| {
            let b = apply_aedits(&a, &es);
            (BStr(concat_atoms(&a)), BStr(concat_atoms(&b)))
        }),
    ]
    .boxed()
}

/// line-structured texts: each line = few atoms + terminator; many repeated lines
pub const TERMS: &[&str] = &["\n", "\n", "\n", "\r\n", "\r"];
pub const LINE_ATOMS: &[&str] = &[
    "a", "b", "c", "", "foo", "bar", " ", "x y", "foo bar", "foo baz", "-y", "+z", " x", "@@ -1 +1 @@",
    "\\ No newline at end of file", "\u{f6}", "e\u{301}", "\u{2028}", "\t", "--- a", "+++ b", "\u{1F1E6}\u{1F1F9}",
    "foo bar baz", "foo qux baz", "\0", "\u{feff}", "\u{feff}a", "\u{fffd}", "\u{1F600} b",
];

#[derive(Clone, Debug, PartialEq, Eq, Hash)]
pub struct Line {
    pub body: usize,
    pub term: usize,
    pub bad: Option<usize>,
}

pub fn line(invalid: bool) -> BoxedStrategy<Line> {
    let bad = if invalid {
        prop_oneof![4 => Just(None), 1 => (0usize..BAD.len()).prop_map(Some)].boxed()
    } else {
        Just(None).boxed()
    };
    (prop_oneof![4 => 0usize..4, 2 => 0usize..LINE_ATOMS.len()], prop_oneof![6 => 0usize..3, 1 => 3usize..5], bad)
        .prop_map(|(body, term, bad)| Line { body, term, bad })
        .boxed()
}

pub fn render_lines(lines: &[Line], final_newline: bool) -> Vec<u8> {
    let mut v = vec![];
    for (i, l) in lines.iter().enumerate() {
        v.extend_from_slice(LINE_ATOMS[l.body].as_bytes());
        if let Some(b) = l.bad {
            v.extend_from_slice(BAD[b]);
        }
        let last = i + 1 == lines.len();
        if !last || final_newline {
            v.extend_from_slice(TERMS[l.term].as_bytes());
        } else if v.is_empty() || LINE_ATOMS[l.body].is_empty() && l.bad.is_none() {
            // an empty unterminated last line does not exist; give it a terminator
            v.extend_from_slice(TERMS[l.term].as_bytes());
        }
    }
    v
}

#[derive(Clone, Debug)]
pub struct LEdit {
    kind: u8,
    at: u16,
    line: Line,
}

fn ledit(invalid: bool) -> impl Strategy<Value = LEdit> {
    (0u8..5, any::<u16>(), line(invalid)).prop_map(|(kind, at, line)| LEdit { kind, at, line })
}

fn apply_ledits(old: &[Line], es: &[LEdit]) -> Vec<Line> {
    let mut v = old.to_vec();
    for e in es {
        let n = v.len();
        match e.kind {
            0 => {
                if n > 0 {
                    v.remove(pos(e.at, n - 1));
                }
            }
            1 => v.insert(pos(e.at, n), e.line.clone()),
            2 => {
                if n > 0 {
                    let p = pos(e.at, n - 1);
                    v[p] = e.line.clone();
                }
            }
            3 => {
                if n > 0 {
                    let p = pos(e.at, n - 1);
                    let x = v[p].clone();
                    v.insert(p, x);
                }
            }
            _ => {
                // word-level change inside a line: switch between the "foo bar"-family bodies
                if n > 0 {
                    let p = pos(e.at, n - 1);
                    v[p].body = match v[p].body {
                        8 => 9,
                        9 => 8,
                        22 => 23,
                        23 => 22,
                        7 => 8,
                        b => b,
                    };
                }
            }
        }
    }
    v
}

/// (old, new) line texts; sizes: dense 0..=8 lines, tail to `max_lines`
pub fn line_text_pair(max_lines: usize, invalid: bool) -> BoxedStrategy<(BStr, BStr)> {
    let sizes = prop_oneof![6 => 0usize..=8, 2 => 0usize..=30.min(max_lines), 1 => 0usize..=max_lines];
    let inv = invalid;
    sizes
        .prop_flat_map(move |n| {
            prop_oneof![
                1 => (vec(line(inv), 0..=n), vec(line(inv), 0..=n), any::<bool>(), any::<bool>())
                    .prop_map(|(a, b, fa, fb)| (BStr(render_lines(&a, fa)), BStr(render_lines(&b, fb)))),
                5 => (vec(line(inv), 0..=n), vec(ledit(inv), 0..=5), prop_oneof![3 => Just(true), 1 => Just(false)], prop_oneof![3 => Just(true), 1 => Just(false)])
                    .prop_map(|(a, es, fa, fb)| {
                        let b = apply_ledits(&a, &es);
                        (BStr(render_lines(&a, fa)), BStr(render_lines(&b, fb)))
                    }),
            ]
        })
        .boxed()
}

/// (old, new) line texts with between `min` and `max` lines on the old side, new = mutate(old)
pub fn line_text_pair_sized(min: usize, max: usize, invalid: bool) -> BoxedStrategy<(BStr, BStr)> {
    (vec(line(invalid), min..=max), vec(ledit(invalid), 0..=6), prop_oneof![3 => Just(true), 1 => Just(false)], prop_oneof![3 => Just(true), 1 => Just(false)])
        .prop_map(|(a, es, fa, fb)| {
            let b = apply_ledits(&a, &es);
            (BStr(render_lines(&a, fa)), BStr(render_lines(&b, fb)))
        })
        .boxed()
}

/// all strings of at most `max` atoms over the first `k` entries of `alphabet`, in size order
pub fn all_atom_strings(alphabet: &[&[u8]], max: usize, f: &mut dyn FnMut(Vec<u8>) -> bool) -> bool {
    let k = alphabet.len();
    for len in 0..=max {
        let mut idx = vec![0usize; len];
        loop {
            let mut s = vec![];
            for &i in &idx {
                s.extend_from_slice(alphabet[i]);
            }
            if !f(s) {
                return false;
            }
            // odometer increment
            let mut p = len;
            let mut carry = true;
            while carry && p > 0 {
                p -= 1;
                idx[p] += 1;
                if idx[p] < k {
                    carry = false;
                } else {
                    idx[p] = 0;
                }
            }
            if carry {
                break;
            }
        }
    }
    true
}
