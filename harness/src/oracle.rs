//! Shared oracles: written from the property statements, none of them asks the library for the
//! answer.

use serde::{Deserialize, Serialize};
use similar::algorithms::DiffHook;
use similar::{Algorithm, DiffOp};
use std::ops::{Index, Range};

pub const ALGS: [Algorithm; 3] = [Algorithm::Myers, Algorithm::Patience, Algorithm::Lcs];

pub fn alg_of(i: u8) -> Algorithm {
    ALGS[(i % 3) as usize]
}
pub fn alg_name(i: u8) -> &'static str {
    ["Myers", "Patience", "Lcs"][(i % 3) as usize]
}

// ------------------------------------------------------------------------------------------
// recording / failing hook

#[derive(Clone, Copy, Debug, PartialEq, Eq, Hash, Serialize, Deserialize)]
pub enum Ev {
    Equal(usize, usize, usize),
    Delete(usize, usize, usize),
    Insert(usize, usize, usize),
    Replace(usize, usize, usize, usize),
    Finish,
}

/// Records every call; fails (returns `Err(k)`) at call number `fail_at` (0-based) if set.
/// `with_replace` = false means the hook does not override `replace` (default delete+insert).
pub struct Recorder {
    pub events: Vec<Ev>,
    pub fail_at: Option<usize>,
    pub calls_after_error: usize,
    pub errored: bool,
}

impl Recorder {
    pub fn new() -> Self {
        Recorder {
            events: vec![],
            fail_at: None,
            calls_after_error: 0,
            errored: false,
        }
    }
    pub fn failing(k: usize) -> Self {
        Recorder {
            events: vec![],
            fail_at: Some(k),
            calls_after_error: 0,
            errored: false,
        }
    }
    fn push(&mut self, e: Ev) -> Result<(), usize> {
        if self.errored {
            self.calls_after_error += 1;
        }
        let idx = self.events.len();
        self.events.push(e);
        if self.fail_at == Some(idx) {
            self.errored = true;
            return Err(idx);
        }
        Ok(())
    }
}

impl DiffHook for Recorder {
    type Error = usize;
    fn equal(&mut self, o: usize, n: usize, len: usize) -> Result<(), usize> {
        self.push(Ev::Equal(o, n, len))
    }
    fn delete(&mut self, o: usize, len: usize, n: usize) -> Result<(), usize> {
        self.push(Ev::Delete(o, len, n))
    }
    fn insert(&mut self, o: usize, n: usize, len: usize) -> Result<(), usize> {
        self.push(Ev::Insert(o, n, len))
    }
    fn replace(&mut self, o: usize, ol: usize, n: usize, nl: usize) -> Result<(), usize> {
        self.push(Ev::Replace(o, ol, n, nl))
    }
    fn finish(&mut self) -> Result<(), usize> {
        self.push(Ev::Finish)
    }
}

/// Same as `Recorder` but does not override `replace` (so it must see delete + insert).
pub struct RecorderNoReplace(pub Recorder);

impl DiffHook for RecorderNoReplace {
    type Error = usize;
    fn equal(&mut self, o: usize, n: usize, len: usize) -> Result<(), usize> {
        self.0.equal(o, n, len)
    }
    fn delete(&mut self, o: usize, len: usize, n: usize) -> Result<(), usize> {
        self.0.delete(o, len, n)
    }
    fn insert(&mut self, o: usize, n: usize, len: usize) -> Result<(), usize> {
        self.0.insert(o, n, len)
    }
    fn finish(&mut self) -> Result<(), usize> {
        self.0.finish()
    }
}

// ------------------------------------------------------------------------------------------
// C01: callback stream validator

/// Validates a raw callback stream against (old[or], new[nr]).
/// `eq(i, j)` tells whether old[i] == new[j].
pub fn validate_raw(
    events: &[Ev],
    or: Range<usize>,
    nr: Range<usize>,
    eq: &dyn Fn(usize, usize) -> bool,
) -> Result<(), String> {
    // finish exactly once and last
    let fin = events.iter().filter(|e| **e == Ev::Finish).count();
    if fin != 1 {
        return Err(format!("finish called {} times", fin));
    }
    if events.last() != Some(&Ev::Finish) {
        return Err("finish is not the last call".into());
    }
    let body = &events[..events.len() - 1];
    let mut co = or.start;
    let mut cn = nr.start;
    // runs of changes: remember (start idx in body, old start, new start)
    let mut i = 0;
    while i < body.len() {
        match body[i] {
            Ev::Equal(o, n, len) => {
                if len == 0 {
                    return Err(format!("event {}: empty equal", i));
                }
                if o != co || n != cn {
                    return Err(format!(
                        "event {}: equal({},{},{}) does not start at the cursor ({},{})",
                        i, o, n, len, co, cn
                    ));
                }
                if o + len > or.end || n + len > nr.end {
                    return Err(format!("event {}: equal({},{},{}) leaves the requested ranges", i, o, n, len));
                }
                for t in 0..len {
                    if !eq(o + t, n + t) {
                        return Err(format!(
                            "event {}: equal({},{},{}) but old[{}] != new[{}]",
                            i,
                            o,
                            n,
                            len,
                            o + t,
                            n + t
                        ));
                    }
                }
                co += len;
                cn += len;
                i += 1;
            }
            Ev::Finish => return Err("finish in the middle".into()),
            _ => {
                // a maximal run of change events
                let run_start = i;
                let (ro_s, rn_s) = (co, cn);
                let mut carried: Vec<(usize, bool, usize)> = vec![]; // (event idx, is_delete, carried)
                while i < body.len() {
                    match body[i] {
                        Ev::Delete(o, len, n) => {
                            if len == 0 {
                                return Err(format!("event {}: empty delete", i));
                            }
                            if o != co {
                                return Err(format!(
                                    "event {}: delete({},{},{}) does not start at the old cursor {}",
                                    i, o, len, n, co
                                ));
                            }
                            if o + len > or.end {
                                return Err(format!("event {}: delete leaves the old range", i));
                            }
                            carried.push((i, true, n));
                            co += len;
                        }
                        Ev::Insert(o, n, len) => {
                            if len == 0 {
                                return Err(format!("event {}: empty insert", i));
                            }
                            if n != cn {
                                return Err(format!(
                                    "event {}: insert({},{},{}) does not start at the new cursor {}",
                                    i, o, n, len, cn
                                ));
                            }
                            if n + len > nr.end {
                                return Err(format!("event {}: insert leaves the new range", i));
                            }
                            carried.push((i, false, o));
                            cn += len;
                        }
                        Ev::Replace(o, ol, n, nl) => {
                            if ol == 0 || nl == 0 {
                                return Err(format!("event {}: replace with an empty side", i));
                            }
                            if o != co || n != cn {
                                return Err(format!(
                                    "event {}: replace({},{},{},{}) does not start at the cursor ({},{})",
                                    i, o, ol, n, nl, co, cn
                                ));
                            }
                            if o + ol > or.end || n + nl > nr.end {
                                return Err(format!("event {}: replace leaves the ranges", i));
                            }
                            co += ol;
                            cn += nl;
                        }
                        _ => break,
                    }
                    i += 1;
                }
                let (ro_e, rn_e) = (co, cn);
                for (idx, is_del, c) in carried {
                    if is_del {
                        if c < rn_s || c > rn_e {
                            return Err(format!(
                                "event {}: delete carries new index {} outside its change run (new {}..={}; run starts at event {})",
                                idx, c, rn_s, rn_e, run_start
                            ));
                        }
                    } else if c < ro_s || c > ro_e {
                        return Err(format!(
                            "event {}: insert carries old index {} outside its change run (old {}..={}; run starts at event {})",
                            idx, c, ro_s, ro_e, run_start
                        ));
                    }
                }
            }
        }
    }
    if co != or.end || cn != nr.end {
        return Err(format!(
            "stream ends at ({},{}) instead of the range ends ({},{})",
            co, cn, or.end, nr.end
        ));
    }
    Ok(())
}

/// Independent re-derivation: replay events on old range -> must give new range.
pub fn replay_events<T: Clone + PartialEq>(events: &[Ev], old: &[T], new: &[T], or: Range<usize>) -> Option<Vec<T>> {
    let mut out = vec![];
    let mut co = or.start;
    for e in events {
        match *e {
            Ev::Equal(o, _, len) => {
                if o != co {
                    return None;
                }
                out.extend_from_slice(old.get(o..o + len)?);
                co += len;
            }
            Ev::Delete(o, len, _) => {
                if o != co {
                    return None;
                }
                old.get(o..o + len)?;
                co += len;
            }
            Ev::Insert(_, n, len) => out.extend_from_slice(new.get(n..n + len)?),
            Ev::Replace(o, ol, n, nl) => {
                if o != co {
                    return None;
                }
                co += ol;
                out.extend_from_slice(new.get(n..n + nl)?);
            }
            Ev::Finish => {}
        }
    }
    if co != or.end {
        return None;
    }
    Some(out)
}

pub fn shift_events(events: &[Ev], doff: usize, noff: usize) -> Vec<Ev> {
    events
        .iter()
        .map(|e| match *e {
            Ev::Equal(o, n, l) => Ev::Equal(o + doff, n + noff, l),
            Ev::Delete(o, l, n) => Ev::Delete(o + doff, l, n + noff),
            Ev::Insert(o, n, l) => Ev::Insert(o + doff, n + noff, l),
            Ev::Replace(o, ol, n, nl) => Ev::Replace(o + doff, ol, n + noff, nl),
            Ev::Finish => Ev::Finish,
        })
        .collect()
}

pub fn events_cost(events: &[Ev]) -> (usize, usize, usize) {
    let (mut d, mut i, mut e) = (0, 0, 0);
    for ev in events {
        match *ev {
            Ev::Equal(_, _, l) => e += l,
            Ev::Delete(_, l, _) => d += l,
            Ev::Insert(_, _, l) => i += l,
            Ev::Replace(_, ol, _, nl) => {
                d += ol;
                i += nl
            }
            Ev::Finish => {}
        }
    }
    (d, i, e)
}

// ------------------------------------------------------------------------------------------
// C02 / C09 / C11: captured op lists

pub fn ops_cost(ops: &[DiffOp]) -> (usize, usize, usize) {
    let (mut d, mut i, mut e) = (0, 0, 0);
    for op in ops {
        match *op {
            DiffOp::Equal { len, .. } => e += len,
            DiffOp::Delete { old_len, .. } => d += old_len,
            DiffOp::Insert { new_len, .. } => i += new_len,
            DiffOp::Replace { old_len, new_len, .. } => {
                d += old_len;
                i += new_len
            }
        }
    }
    (d, i, e)
}

/// C02: primary indices consume old and new left to right without gap or overlap, Equal ops
/// pair equal items, the walk ends at both ends.  Carried indices are NOT judged here.
pub fn validate_ops(
    ops: &[DiffOp],
    or: Range<usize>,
    nr: Range<usize>,
    eq: &dyn Fn(usize, usize) -> bool,
) -> Result<(), String> {
    let mut co = or.start;
    let mut cn = nr.start;
    for (i, op) in ops.iter().enumerate() {
        match *op {
            DiffOp::Equal { old_index, new_index, len } => {
                if old_index != co || new_index != cn {
                    return Err(format!("op {} {:?}: not at the cursor ({},{})", i, op, co, cn));
                }
                if co + len > or.end || cn + len > nr.end {
                    return Err(format!("op {} {:?}: leaves the ranges", i, op));
                }
                for t in 0..len {
                    if !eq(co + t, cn + t) {
                        return Err(format!("op {} {:?}: old[{}] != new[{}]", i, op, co + t, cn + t));
                    }
                }
                co += len;
                cn += len;
            }
            DiffOp::Delete { old_index, old_len, .. } => {
                if old_index != co {
                    return Err(format!("op {} {:?}: old range not at the old cursor {}", i, op, co));
                }
                if co + old_len > or.end {
                    return Err(format!("op {} {:?}: leaves the old range", i, op));
                }
                co += old_len;
            }
            DiffOp::Insert { new_index, new_len, .. } => {
                if new_index != cn {
                    return Err(format!("op {} {:?}: new range not at the new cursor {}", i, op, cn));
                }
                if cn + new_len > nr.end {
                    return Err(format!("op {} {:?}: leaves the new range", i, op));
                }
                cn += new_len;
            }
            DiffOp::Replace { old_index, old_len, new_index, new_len } => {
                if old_index != co || new_index != cn {
                    return Err(format!("op {} {:?}: not at the cursor ({},{})", i, op, co, cn));
                }
                if co + old_len > or.end || cn + new_len > nr.end {
                    return Err(format!("op {} {:?}: leaves the ranges", i, op));
                }
                co += old_len;
                cn += new_len;
            }
        }
    }
    if co != or.end || cn != nr.end {
        return Err(format!("walk ends at ({},{}) instead of ({},{})", co, cn, or.end, nr.end));
    }
    Ok(())
}

/// apply(ops, old) -> new'
pub fn apply_ops<T: Clone>(ops: &[DiffOp], old: &[T], new: &[T]) -> Option<Vec<T>> {
    let mut out = vec![];
    for op in ops {
        match *op {
            DiffOp::Equal { old_index, len, .. } => out.extend_from_slice(old.get(old_index..old_index + len)?),
            DiffOp::Delete { .. } => {}
            DiffOp::Insert { new_index, new_len, .. } => out.extend_from_slice(new.get(new_index..new_index + new_len)?),
            DiffOp::Replace { new_index, new_len, .. } => out.extend_from_slice(new.get(new_index..new_index + new_len)?),
        }
    }
    Some(out)
}

/// inverted application: new -> old'
pub fn unapply_ops<T: Clone>(ops: &[DiffOp], old: &[T], new: &[T]) -> Option<Vec<T>> {
    let mut out = vec![];
    for op in ops {
        match *op {
            DiffOp::Equal { new_index, len, .. } => out.extend_from_slice(new.get(new_index..new_index + len)?),
            DiffOp::Insert { .. } => {}
            DiffOp::Delete { old_index, old_len, .. } => out.extend_from_slice(old.get(old_index..old_index + old_len)?),
            DiffOp::Replace { old_index, old_len, .. } => out.extend_from_slice(old.get(old_index..old_index + old_len)?),
        }
    }
    Some(out)
}

/// C09 normal form.
pub fn normal_form(ops: &[DiffOp], eq: &dyn Fn(usize, usize) -> bool) -> Result<(), String> {
    for (i, op) in ops.iter().enumerate() {
        match *op {
            DiffOp::Equal { len, .. } if len == 0 => return Err(format!("op {} {:?}: empty", i, op)),
            DiffOp::Delete { old_len, .. } if old_len == 0 => return Err(format!("op {} {:?}: empty", i, op)),
            DiffOp::Insert { new_len, .. } if new_len == 0 => return Err(format!("op {} {:?}: empty", i, op)),
            DiffOp::Replace { old_len, new_len, .. } if old_len == 0 || new_len == 0 => {
                return Err(format!("op {} {:?}: empty side", i, op))
            }
            _ => {}
        }
        if i > 0 {
            let a = matches!(ops[i - 1], DiffOp::Equal { .. });
            let b = matches!(*op, DiffOp::Equal { .. });
            if a == b {
                return Err(format!(
                    "ops {} and {} ({:?}, {:?}): Equal and non-Equal ops do not alternate",
                    i - 1,
                    i,
                    ops[i - 1],
                    op
                ));
            }
        }
        if let DiffOp::Insert { new_index, .. } = *op {
            if let Some(DiffOp::Equal { old_index, .. }) = ops.get(i + 1) {
                if eq(*old_index, new_index) {
                    return Err(format!(
                        "op {} {:?}: insertion not at its latest position (new[{}] == old[{}], the first equal item after it)",
                        i, op, new_index, old_index
                    ));
                }
            }
        }
    }
    Ok(())
}

/// C11: both indices of every op == range start + items consumed before it on that side.
/// Returns Err((is_primary, message)).
pub fn carried_exact(ops: &[DiffOp], os: usize, ns: usize) -> Result<(), (bool, String)> {
    let mut co = os;
    let mut cn = ns;
    for (i, op) in ops.iter().enumerate() {
        let (_, o, n) = op.as_tag_tuple();
        match *op {
            DiffOp::Equal { old_index, new_index, .. } | DiffOp::Replace { old_index, new_index, .. } => {
                if old_index != co || new_index != cn {
                    return Err((true, format!("op {} {:?}: expected indices ({},{})", i, op, co, cn)));
                }
            }
            DiffOp::Delete { old_index, new_index, .. } => {
                if old_index != co {
                    return Err((true, format!("op {} {:?}: expected old_index {}", i, op, co)));
                }
                if new_index != cn {
                    return Err((false, format!("op {} {:?}: carried new_index should be {}", i, op, cn)));
                }
            }
            DiffOp::Insert { old_index, new_index, .. } => {
                if new_index != cn {
                    return Err((true, format!("op {} {:?}: expected new_index {}", i, op, cn)));
                }
                if old_index != co {
                    return Err((false, format!("op {} {:?}: carried old_index should be {}", i, op, co)));
                }
            }
        }
        co += o.len();
        cn += n.len();
        if o.start + o.len() != o.end || n.start + n.len() != n.end {
            return Err((true, format!("op {}: inconsistent tag tuple", i)));
        }
    }
    Ok(())
}

// ------------------------------------------------------------------------------------------
// reference LCS / LIS

pub fn lcs_len<A, B>(a: &[A], b: &[B]) -> usize
where
    B: PartialEq<A>,
{
    let m = b.len();
    let mut prev = vec![0usize; m + 1];
    let mut cur = vec![0usize; m + 1];
    for x in a {
        for (j, y) in b.iter().enumerate() {
            cur[j + 1] = if *y == *x { prev[j] + 1 } else { cur[j].max(prev[j + 1]) };
        }
        std::mem::swap(&mut prev, &mut cur);
    }
    prev[m]
}

/// length of a longest strictly increasing subsequence
pub fn lis_len(xs: &[usize]) -> usize {
    let mut tails: Vec<usize> = vec![];
    for &x in xs {
        match tails.binary_search(&x) {
            Ok(_) => {}
            Err(p) => {
                if p == tails.len() {
                    tails.push(x)
                } else {
                    tails[p] = x
                }
            }
        }
    }
    tails.len()
}

// ------------------------------------------------------------------------------------------
// strict lookups

/// An `Index<usize>` that refuses any access outside the range the caller asked to be diffed
/// (the same contract the library's own offset lookups impose).
pub struct Strict<'a, T> {
    pub data: &'a [T],
    pub lo: usize,
    pub hi: usize,
}

impl<'a, T> Index<usize> for Strict<'a, T> {
    type Output = T;
    fn index(&self, i: usize) -> &T {
        if i < self.lo || i >= self.hi {
            panic!(
                "{}: library indexed position {} outside the requested range {}..{}",
                crate::core::LIB_FAULT_PREFIX,
                i,
                self.lo,
                self.hi
            );
        }
        &self.data[i]
    }
}

// ------------------------------------------------------------------------------------------
// comparison-counting element type

/// Real-clock expiry in the MIDDLE of a run: an item whose `==` waits, at a chosen comparison, until
/// a real deadline has passed, and from then on counts the comparisons that are still made.  The
/// verdict drawn from it does not depend on timing: whenever the deadline passes (at the chosen
/// comparison, or earlier on a slow machine), the count only starts once `Instant::now()` has been
/// seen behind the deadline, and the bound it is held against must hold for every expiry moment.
pub mod blocking {
    use std::cell::RefCell;
    use std::hash::{Hash, Hasher};
    use std::time::Instant;

    struct St {
        deadline: Option<Instant>,
        block_at: u64,
        count: u64,
        expired: bool,
        after: u64,
    }
    thread_local! {
        static ST: RefCell<St> = RefCell::new(St { deadline: None, block_at: u64::MAX, count: 0, expired: false, after: 0 });
    }
    /// `deadline` None = only count
    pub fn arm(deadline: Option<Instant>, block_at: u64) {
        ST.with(|s| *s.borrow_mut() = St { deadline, block_at, count: 0, expired: false, after: 0 });
    }
    pub fn count() -> u64 {
        ST.with(|s| s.borrow().count)
    }
    pub fn after() -> u64 {
        ST.with(|s| s.borrow().after)
    }
    pub fn expired() -> bool {
        ST.with(|s| s.borrow().expired)
    }

    #[derive(Clone, Copy, Debug, Eq, PartialOrd, Ord)]
    pub struct Blk(pub u32);

    impl PartialEq for Blk {
        fn eq(&self, other: &Blk) -> bool {
            ST.with(|s| {
                let mut s = s.borrow_mut();
                if s.expired {
                    s.after += 1;
                } else {
                    s.count += 1;
                    if let Some(d) = s.deadline {
                        if s.count == s.block_at {
                            while Instant::now() <= d {
                                std::hint::spin_loop();
                            }
                        }
                        if Instant::now() > d {
                            s.expired = true;
                        }
                    }
                }
            });
            self.0 == other.0
        }
    }
    impl Hash for Blk {
        fn hash<H: Hasher>(&self, h: &mut H) {
            self.0.hash(h)
        }
    }
}

pub mod counting {
    use std::cell::Cell;
    use std::hash::{Hash, Hasher};

    thread_local! {
        static TOTAL: Cell<u64> = Cell::new(0);
        static POST: Cell<u64> = Cell::new(0);
        static LIMIT: Cell<u64> = Cell::new(u64::MAX);
    }

    pub fn reset() {
        TOTAL.with(|c| c.set(0));
        POST.with(|c| c.set(0));
        LIMIT.with(|c| c.set(u64::MAX));
    }
    pub fn set_limit(l: u64) {
        LIMIT.with(|c| c.set(l));
    }
    pub fn total() -> u64 {
        TOTAL.with(|c| c.get())
    }
    pub fn post_expiry() -> u64 {
        POST.with(|c| c.get())
    }

    /// Item whose `==` counts calls (and, separately, calls made after the virtual clock expired).
    #[derive(Clone, Copy, Debug, Eq, PartialOrd, Ord)]
    pub struct Cnt(pub u32);

    impl PartialEq for Cnt {
        fn eq(&self, other: &Cnt) -> bool {
            let t = TOTAL.with(|c| {
                let v = c.get() + 1;
                c.set(v);
                v
            });
            if similar::verif::clock::expired() {
                POST.with(|c| c.set(c.get() + 1));
            }
            if t > LIMIT.with(|c| c.get()) {
                panic!("{}: comparison budget exceeded ({} comparisons)", crate::core::LIB_FAULT_PREFIX, t);
            }
            self.0 == other.0
        }
    }
    impl Hash for Cnt {
        fn hash<H: Hasher>(&self, h: &mut H) {
            self.0.hash(h)
        }
    }

    /// byte-string item whose `==` counts calls
    #[derive(Clone, Debug, Eq, PartialOrd, Ord)]
    pub struct CntS(pub Vec<u8>);

    impl PartialEq for CntS {
        fn eq(&self, other: &CntS) -> bool {
            let t = TOTAL.with(|c| {
                let v = c.get() + 1;
                c.set(v);
                v
            });
            if t > LIMIT.with(|c| c.get()) {
                panic!("{}: comparison budget exceeded ({} comparisons)", crate::core::LIB_FAULT_PREFIX, t);
            }
            self.0 == other.0
        }
    }
    impl Hash for CntS {
        fn hash<H: Hasher>(&self, h: &mut H) {
            self.0.hash(h)
        }
    }
}

// ------------------------------------------------------------------------------------------
// op (de)serialisation helper for cases that carry op lists

#[derive(Clone, Copy, Debug, PartialEq, Eq, Hash, Serialize, Deserialize)]
pub enum SOp {
    Equal(usize, usize, usize),
    Delete(usize, usize, usize),
    Insert(usize, usize, usize),
    Replace(usize, usize, usize, usize),
}

impl SOp {
    pub fn to_op(self) -> DiffOp {
        match self {
            SOp::Equal(o, n, l) => DiffOp::Equal { old_index: o, new_index: n, len: l },
            SOp::Delete(o, l, n) => DiffOp::Delete { old_index: o, old_len: l, new_index: n },
            SOp::Insert(o, n, l) => DiffOp::Insert { old_index: o, new_index: n, new_len: l },
            SOp::Replace(o, ol, n, nl) => DiffOp::Replace { old_index: o, old_len: ol, new_index: n, new_len: nl },
        }
    }
    pub fn from_op(op: &DiffOp) -> SOp {
        match *op {
            DiffOp::Equal { old_index, new_index, len } => SOp::Equal(old_index, new_index, len),
            DiffOp::Delete { old_index, old_len, new_index } => SOp::Delete(old_index, old_len, new_index),
            DiffOp::Insert { old_index, new_index, new_len } => SOp::Insert(old_index, new_index, new_len),
            DiffOp::Replace { old_index, old_len, new_index, new_len } => {
                SOp::Replace(old_index, old_len, new_index, new_len)
            }
        }
    }
}

pub fn ops_to_events(ops: &[DiffOp]) -> Vec<Ev> {
    ops.iter()
        .map(|op| match *op {
            DiffOp::Equal { old_index, new_index, len } => Ev::Equal(old_index, new_index, len),
            DiffOp::Delete { old_index, old_len, new_index } => Ev::Delete(old_index, old_len, new_index),
            DiffOp::Insert { old_index, new_index, new_len } => Ev::Insert(old_index, new_index, new_len),
            DiffOp::Replace { old_index, old_len, new_index, new_len } => {
                Ev::Replace(old_index, old_len, new_index, new_len)
            }
        })
        .collect()
}

// ------------------------------------------------------------------------------------------
// item types with lawful but unusual Hash / comparison behaviour

pub mod items {
    use std::hash::{Hash, Hasher};

    /// equal/ordered by value, but the hash only sees the two low bits (lawful: equal => same hash)
    #[derive(Clone, Copy, Debug, PartialEq, Eq, PartialOrd, Ord)]
    pub struct Coarse(pub u32);
    impl Hash for Coarse {
        fn hash<H: Hasher>(&self, h: &mut H) {
            (self.0 & 3).hash(h)
        }
    }

    /// a new-side item type different from the old-side type (u64): compares with u64 by value,
    /// hashes differently from the equal u64
    #[derive(Clone, Copy, Debug, PartialEq, Eq, PartialOrd, Ord)]
    pub struct Id32(pub u32);
    impl Hash for Id32 {
        fn hash<H: Hasher>(&self, h: &mut H) {
            format!("id-{}", self.0).hash(h)
        }
    }
    impl PartialEq<u64> for Id32 {
        fn eq(&self, o: &u64) -> bool {
            self.0 as u64 == *o
        }
    }
}

/// A caller-defined `DiffableStr` token type: equality, order and hash look only at `key`; the text
/// differs between any two occurrences.  (A lawful user type such as a case-insensitive keyword.)
pub mod keyed {
    use similar::DiffableStr;
    use std::borrow::Cow;
    use std::hash::{Hash, Hasher};

    #[derive(Clone, Debug)]
    pub struct Keyed {
        pub key: u32,
        pub text: String,
    }
    impl PartialEq for Keyed {
        fn eq(&self, o: &Keyed) -> bool {
            self.key == o.key
        }
    }
    impl Eq for Keyed {}
    impl Hash for Keyed {
        fn hash<H: Hasher>(&self, h: &mut H) {
            self.key.hash(h)
        }
    }
    impl PartialOrd for Keyed {
        fn partial_cmp(&self, o: &Keyed) -> Option<std::cmp::Ordering> {
            Some(self.cmp(o))
        }
    }
    impl Ord for Keyed {
        fn cmp(&self, o: &Keyed) -> std::cmp::Ordering {
            self.key.cmp(&o.key)
        }
    }
    impl DiffableStr for Keyed {
        fn tokenize_lines(&self) -> Vec<&Self> {
            vec![self]
        }
        fn tokenize_lines_and_newlines(&self) -> Vec<&Self> {
            vec![self]
        }
        fn tokenize_words(&self) -> Vec<&Self> {
            vec![self]
        }
        fn tokenize_chars(&self) -> Vec<&Self> {
            vec![self]
        }
        fn tokenize_unicode_words(&self) -> Vec<&Self> {
            vec![self]
        }
        fn tokenize_graphemes(&self) -> Vec<&Self> {
            vec![self]
        }
        fn as_str(&self) -> Option<&str> {
            Some(&self.text)
        }
        fn to_string_lossy(&self) -> Cow<'_, str> {
            Cow::Borrowed(&self.text)
        }
        fn ends_with_newline(&self) -> bool {
            self.text.ends_with(&['\r', '\n'][..])
        }
        fn len(&self) -> usize {
            self.text.len()
        }
        fn slice(&self, _rng: std::ops::Range<usize>) -> &Self {
            self
        }
        fn as_bytes(&self) -> &[u8] {
            self.text.as_bytes()
        }
    }
}

/// A recording hook that is RE-ENTRANT: from inside every delete/insert callback it runs a small
/// nested diff with the same algorithm (what a hook does that refines a changed block by diffing it
/// again).  The outer stream must not be disturbed by the nested calls.
pub struct NestingRecorder {
    pub rec: Recorder,
    pub alg: Algorithm,
    pub nested_runs: usize,
}

impl NestingRecorder {
    pub fn new(alg: Algorithm) -> Self {
        NestingRecorder { rec: Recorder::new(), alg, nested_runs: 0 }
    }
    fn nested(&mut self, a: usize, b: usize) {
        // two short sequences derived from the callback arguments
        let x: Vec<u32> = (0..5 + a % 4).map(|i| ((i * 7 + a) % 4) as u32).collect();
        let y: Vec<u32> = (0..4 + b % 5).map(|i| ((i * 5 + b) % 4) as u32).collect();
        let mut inner = Recorder::new();
        let _ = similar::algorithms::diff_slices(self.alg, &mut inner, &x, &y);
        let _ = similar::capture_diff_slices(self.alg, &y, &x);
        self.nested_runs += 1;
    }
}

impl DiffHook for NestingRecorder {
    type Error = usize;
    fn equal(&mut self, o: usize, n: usize, len: usize) -> Result<(), usize> {
        self.rec.equal(o, n, len)
    }
    fn delete(&mut self, o: usize, len: usize, n: usize) -> Result<(), usize> {
        self.nested(o, len);
        self.rec.delete(o, len, n)
    }
    fn insert(&mut self, o: usize, n: usize, len: usize) -> Result<(), usize> {
        self.nested(n, len);
        self.rec.insert(o, n, len)
    }
    fn finish(&mut self) -> Result<(), usize> {
        self.rec.finish()
    }
}

/// A caller-defined lookup whose valid indices start at a (possibly huge) base: `index(base + i)` is
/// `data[i]`; anything else panics as an out-of-range access by the library.
pub struct Based<'a> {
    pub data: &'a [u32],
    pub base: usize,
}

impl<'a> Index<usize> for Based<'a> {
    type Output = u32;
    fn index(&self, i: usize) -> &u32 {
        match i.checked_sub(self.base).and_then(|k| self.data.get(k)) {
            Some(x) => x,
            None => panic!("{}: library indexed position {} of a lookup that covers {}..{}", crate::core::LIB_FAULT_PREFIX, i, self.base, self.base.wrapping_add(self.data.len())),
        }
    }
}

/// A lookup type that lives at the SAME ADDRESS as the Vec it wraps (repr(transparent)) but indexes
/// it back to front: `&view.0` and `&view` are two different sequences sharing address and size.
#[repr(transparent)]
pub struct Reversed(pub Vec<u32>);

impl Index<usize> for Reversed {
    type Output = u32;
    fn index(&self, i: usize) -> &u32 {
        &self.0[self.0.len() - 1 - i]
    }
}

/// Leaves whatever per-thread state a diff can leave behind when it is aborted: a diff through
/// Compact + Replace whose innermost hook fails at call `fail_at`, and diffs whose deadline runs out
/// in mid-run.  Used before a judged call; a later diff on the same thread must not be affected.
pub fn poison_thread(alg: Algorithm, old: &[u32], new: &[u32], fail_at: usize) {
    let mut h = similar::algorithms::Compact::new(similar::algorithms::Replace::new(Recorder::failing(fail_at)), old, new);
    let _ = similar::algorithms::diff_slices(alg, &mut h, old, new);
    // diffs that run out of time in mid-run (virtual clock, expiry at a probe behind the first):
    // the given inputs, and a fixed 48 x 40 pair that has many probes with every algorithm
    let far = std::time::Instant::now() + std::time::Duration::from_secs(3600);
    let fixed_old: Vec<u32> = (0..48u32).map(|i| (i * 7 + i / 5) % 6).collect();
    let fixed_new: Vec<u32> = (0..40u32).map(|i| (i * 5 + i / 3 + 1) % 6).collect();
    for (o, n, k) in [(old, new, 1 + fail_at as u64), (&fixed_old[..], &fixed_new[..], 2 + 3 * fail_at as u64)] {
        similar::verif::clock::install(Some(k));
        let mut r = Recorder::new();
        let _ = similar::algorithms::diff_slices_deadline(alg, &mut r, o, n, Some(far));
        similar::verif::clock::install(None);
    }
}

/// A caller-defined unsized `DiffableStr`: ASCII-case-insensitive text (`Eq`, `Ord`, `Hash` fold the
/// case; the bytes differ).  A transparent wrapper around `str`.
pub mod cistr {
    use similar::DiffableStr;
    use std::borrow::Cow;
    use std::hash::{Hash, Hasher};

    #[repr(transparent)]
    #[derive(Debug)]
    pub struct CiStr(str);

    impl CiStr {
        pub fn new(s: &str) -> &CiStr {
            // SAFETY: CiStr is a repr(transparent) wrapper around str
            unsafe { &*(s as *const str as *const CiStr) }
        }
        pub fn as_plain(&self) -> &str {
            &self.0
        }
        fn wrap(v: Vec<&str>) -> Vec<&CiStr> {
            v.into_iter().map(CiStr::new).collect()
        }
    }
    impl PartialEq for CiStr {
        fn eq(&self, o: &CiStr) -> bool {
            self.0.eq_ignore_ascii_case(&o.0)
        }
    }
    impl Eq for CiStr {}
    impl Hash for CiStr {
        fn hash<H: Hasher>(&self, h: &mut H) {
            for b in self.0.bytes() {
                h.write_u8(b.to_ascii_lowercase());
            }
            h.write_u8(0xff);
        }
    }
    impl PartialOrd for CiStr {
        fn partial_cmp(&self, o: &CiStr) -> Option<std::cmp::Ordering> {
            Some(self.cmp(o))
        }
    }
    impl Ord for CiStr {
        fn cmp(&self, o: &CiStr) -> std::cmp::Ordering {
            self.0.bytes().map(|b| b.to_ascii_lowercase()).cmp(o.0.bytes().map(|b| b.to_ascii_lowercase()))
        }
    }
    impl ToOwned for CiStr {
        type Owned = Box<CiStr>;
        fn to_owned(&self) -> Box<CiStr> {
            let b: Box<str> = self.0.into();
            // SAFETY: same layout
            unsafe { Box::from_raw(Box::into_raw(b) as *mut CiStr) }
        }
    }
    impl DiffableStr for CiStr {
        fn tokenize_lines(&self) -> Vec<&Self> {
            CiStr::wrap(self.0.tokenize_lines())
        }
        fn tokenize_lines_and_newlines(&self) -> Vec<&Self> {
            CiStr::wrap(self.0.tokenize_lines_and_newlines())
        }
        fn tokenize_words(&self) -> Vec<&Self> {
            CiStr::wrap(self.0.tokenize_words())
        }
        fn tokenize_chars(&self) -> Vec<&Self> {
            CiStr::wrap(self.0.tokenize_chars())
        }
        fn tokenize_unicode_words(&self) -> Vec<&Self> {
            CiStr::wrap(self.0.tokenize_unicode_words())
        }
        fn tokenize_graphemes(&self) -> Vec<&Self> {
            CiStr::wrap(self.0.tokenize_graphemes())
        }
        fn as_str(&self) -> Option<&str> {
            Some(&self.0)
        }
        fn to_string_lossy(&self) -> Cow<'_, str> {
            Cow::Borrowed(&self.0)
        }
        fn ends_with_newline(&self) -> bool {
            self.0.ends_with(&['\r', '\n'][..])
        }
        fn len(&self) -> usize {
            self.0.len()
        }
        fn slice(&self, rng: std::ops::Range<usize>) -> &Self {
            CiStr::new(&self.0[rng])
        }
        fn as_bytes(&self) -> &[u8] {
            self.0.as_bytes()
        }
    }
}

/// deterministic pseudo-random sequence for the fixed "large" cases (a constant of the harness,
/// not a source of randomness of a run)
pub fn lcg_seq(seed: u64, n: usize, k: u32) -> Vec<u32> {
    let mut x = seed.wrapping_mul(0x9E37_79B9_7F4A_7C15) | 1;
    (0..n)
        .map(|_| {
            x ^= x >> 12;
            x ^= x << 25;
            x ^= x >> 27;
            ((x.wrapping_mul(0x2545_F491_4F6C_DD1D) >> 33) as u32) % k
        })
        .collect()
}
