use voracle::core::*;
use voracle::props::*;

fn usage() -> ! {
    eprintln!("usage: vcheck --property <ID> [--tier quick|thorough] [--seed N] [--scale F] [--replay FILE] [--no-evidence]");
    std::process::exit(2)
}

macro_rules! dispatch {
    ($id:expr, $f:ident, $($arg:expr),*) => {
        match $id {
            "C01" => $f::<c01::C01>($($arg),*),
            "C02" => $f::<c02::C02>($($arg),*),
            "C03" => $f::<c03::C03>($($arg),*),
            "C04" => $f::<c04::C04>($($arg),*),
            "C05" => $f::<c05::C05>($($arg),*),
            "C06" => $f::<c06::C06>($($arg),*),
            "C16" => $f::<c16::C16>($($arg),*),
            "C17" => $f::<c17::C17>($($arg),*),
            "C18" => $f::<c18::C18>($($arg),*),
            "C19" => $f::<c19::C19>($($arg),*),
            "C07" => $f::<c07::C07>($($arg),*),
            "C08" => $f::<c08::C08>($($arg),*),
            "C09" => $f::<c09::C09>($($arg),*),
            "C14" => $f::<c14::C14>($($arg),*),
            "C15" => $f::<c15::C15>($($arg),*),
            "C20" => $f::<c20::C20>($($arg),*),
            "C10" => $f::<c10::C10>($($arg),*),
            "C11" => $f::<c11::C11>($($arg),*),
            "C12" => $f::<c12::C12>($($arg),*),
            "C13" => $f::<c13::C13>($($arg),*),
            _ => {
                eprintln!("unknown property {}", $id);
                2
            }
        }
    };
}

fn main() {
    let args: Vec<String> = std::env::args().collect();
    let mut prop = String::new();
    let mut tier = match std::env::var("VERIF_TIER").as_deref() {
        Ok("thorough") => Tier::Thorough,
        _ => Tier::Quick,
    };
    let mut seed: u64 = std::env::var("VERIF_SEED").ok().and_then(|s| s.trim().parse().ok()).unwrap_or(1);
    let mut replay: Option<String> = None;
    let mut scale = 1.0f64;
    let mut write_evidence = true;
    let mut fuzz_summary = None;
    let mut i = 1;
    while i < args.len() {
        match args[i].as_str() {
            "--property" => {
                i += 1;
                prop = args.get(i).cloned().unwrap_or_else(|| usage());
            }
            "--tier" => {
                i += 1;
                tier = match args.get(i).map(|s| s.as_str()) {
                    Some("quick") => Tier::Quick,
                    Some("thorough") => Tier::Thorough,
                    _ => usage(),
                };
            }
            "--seed" => {
                i += 1;
                seed = args.get(i).and_then(|s| s.parse().ok()).unwrap_or_else(|| usage());
            }
            "--scale" => {
                i += 1;
                scale = args.get(i).and_then(|s| s.parse().ok()).unwrap_or_else(|| usage());
            }
            "--replay" => {
                i += 1;
                replay = Some(args.get(i).cloned().unwrap_or_else(|| usage()));
            }
            "--fuzz-summary" => {
                i += 1;
                let p = args.get(i).cloned().unwrap_or_else(|| usage());
                fuzz_summary = std::fs::read_to_string(p).ok().and_then(|s| serde_json::from_str(&s).ok());
            }
            "--no-evidence" => write_evidence = false,
            "--fuzz-input" => {
                i += 1;
                let p = args.get(i).cloned().unwrap_or_else(|| usage());
                std::env::set_var("VCHECK_PROP", &prop);
                let data = std::fs::read(&p).unwrap_or_default();
                voracle::fuzz::entry(&data);
                println!("fuzz input {} ok", p);
                std::process::exit(0);
            }
            "--fuzz-artifact" => {
                i += 1;
                let p = args.get(i).cloned().unwrap_or_else(|| usage());
                std::process::exit(voracle::fuzz::artifact_to_replay(&prop, &p, seed));
            }
            _ => usage(),
        }
        i += 1;
    }
    if prop.is_empty() {
        usage();
    }
    // watchdog: a hang is "inconclusive" (exit 2), never a violation
    let limit = std::env::var("VCHECK_WATCHDOG_S").ok().and_then(|s| s.parse().ok()).unwrap_or(match tier {
        Tier::Quick => 900u64,
        Tier::Thorough => 7200,
    });
    std::thread::spawn(move || {
        std::thread::sleep(std::time::Duration::from_secs(limit));
        eprintln!("INCONCLUSIVE: watchdog after {} s", limit);
        std::process::exit(2);
    });
    let code = if let Some(path) = replay {
        dispatch!(prop.as_str(), replay_file, &path)
    } else {
        let opts = RunOpts { tier, seed, scale, write_evidence, fuzz_summary };
        dispatch!(prop.as_str(), run_property, &opts)
    };
    std::process::exit(code);
}
