pub mod core;
pub mod gen;
pub mod oracle;
pub mod props;
pub mod fuzz;
