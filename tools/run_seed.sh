#!/bin/bash
# tools/run_seed.sh <seed-dir-name> [check ids...]   (default: all 20 checks, quick tier)
# Applies /verif/seeded/<name>/patch.diff to /repo, runs the checks, reverts. Appends one line per
# check to /verif/work/seed-results.tsv : name <tab> check <tab> exit <tab> seconds <tab> first line
set -u
NAME="$1"; shift
DIR="/verif/seeded/$NAME"
CHECKS="$*"
[ -n "$CHECKS" ] || CHECKS="C01 C02 C03 C04 C05 C06 C07 C08 C09 C10 C11 C12 C13 C14 C15 C16 C17 C18 C19 C20"
if [ -n "$(git -C /repo status --porcelain --untracked-files=no)" ]; then echo "/repo not clean"; exit 2; fi
git -C /repo apply "$DIR/patch.diff" || { echo "apply failed"; exit 2; }
trap 'git -C /repo checkout -- . ' EXIT
for c in $CHECKS; do
    t0=$(date +%s.%N)
    out=$(/verif/bin/check $c ${TIER:-quick} 2>&1)
    rc=$?
    t1=$(date +%s.%N)
    first=$(echo "$out" | grep -E "VIOLATION|INCONCLUSIVE" | head -1 | cut -c1-160)
    msg=$(echo "$out" | grep -E "^  stage=" | head -1 | cut -c1-300)
    printf "%s\t%s\t%s\t%.1f\t%s\t%s\n" "$NAME" "$c" "$rc" "$(echo "$t1 - $t0" | bc)" "$first" "$msg" >> /verif/work/seed-results.tsv
    echo "$NAME $c rc=$rc"
done
