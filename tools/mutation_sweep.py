#!/usr/bin/env python3
"""Automatic first-order mutation sweep (sensitivity of the checks beyond the hand-written seeds).

Works entirely on private copies (a git worktree of /repo and a copy of /verif under --work), never
on /repo or /verif.  For every sampled mutation site: build, run the repository's 41-test suite
(mutants it kills are not interesting), then run the quick checks of the properties anchored in the
mutated file until one reports a VIOLATION.  Output: one TSV line per mutant.

usage: tools/mutation_sweep.py --work /root/mut --every 3 [--files a.rs,b.rs] > sweep.tsv
"""
import argparse, os, re, subprocess, sys, shutil, time

CHECKS = {
 'src/algorithms/myers.rs': 'C01 C03 C02 C07 C08 C19',
 'src/algorithms/patience.rs': 'C01 C15 C02 C07 C08 C19 C20',
 'src/algorithms/lcs.rs': 'C01 C03 C02 C07 C08',
 'src/algorithms/compact.rs': 'C02 C09 C10 C11 C05',
 'src/algorithms/replace.rs': 'C02 C09 C10 C08',
 'src/algorithms/utils.rs': 'C01 C14 C15 C03 C20 C19',
 'src/algorithms/hook.rs': 'C08 C10 C13',
 'src/algorithms/capture.rs': 'C12 C13',
 'src/algorithms/mod.rs': 'C01 C07 C08',
 'src/common.rs': 'C02 C12 C03 C09',
 'src/types.rs': 'C13 C11 C10 C02',
 'src/iter.rs': 'C13 C04',
 'src/udiff.rs': 'C05 C13',
 'src/utils.rs': 'C17',
 'src/text/mod.rs': 'C14 C04 C02 C18 C07 C12',
 'src/text/abstraction.rs': 'C06 C04 C20',
 'src/text/inline.rs': 'C16',
 'src/text/utils.rs': 'C18 C16',
 'src/deadline_support.rs': 'C07',
}
OPS = [
 (r' <= ', ' < '), (r' < ', ' <= '), (r' >= ', ' > '), (r' > ', ' >= '),
 (r' == ', ' != '), (r' != ', ' == '),
 (r' \+ 1\b', ' + 0'), (r' - 1\b', ' - 0'), (r' \+ 1\b', ' + 2'),
 (r' && ', ' || '), (r' \|\| ', ' && '),
 (r'\.min\(', '.max('), (r'\.max\(', '.min('),
 (r' \+= ', ' -= '), (r' -= ', ' += '),
 (r'\btrue\b', 'false'), (r'\bfalse\b', 'true'),
]

def sites(path, text):
    out = []
    lines = text.split('\n')
    in_tests = False
    for ln, line in enumerate(lines):
        s = line.strip()
        if s.startswith('#[test]') or s.startswith('#[cfg(test)]'):
            in_tests = True
        if in_tests or s.startswith('//') or s.startswith('#[') or s.startswith('///') or 'similar_verif' in line or 'debug_assert' in line:
            continue
        code = line.split('//')[0]
        if '"' in code:
            continue
        for oi, (pat, rep) in enumerate(OPS):
            for m in re.finditer(pat, code):
                # skip generics / lifetimes / where clauses
                if pat.strip() in ('<', '>', '<=', '>=') and ('fn ' in code or 'impl' in code or 'where' in code or '->' in code or 'type ' in code or code.strip().endswith(',') and ':' in code):
                    continue
                out.append((ln, m.start(), m.end(), oi))
    return out

def run(cmd, cwd, timeout, env=None):
    # own process group, killed as a whole on timeout: a mutant that loops forever must not leave
    # its test binary running
    p = subprocess.Popen(cmd, cwd=cwd, shell=True, stdout=subprocess.PIPE, stderr=subprocess.STDOUT, text=True, env=env, start_new_session=True)
    try:
        out, _ = p.communicate(timeout=timeout)
        return p.returncode, out
    except subprocess.TimeoutExpired:
        import signal
        os.killpg(p.pid, signal.SIGKILL)
        p.communicate()
        return 124, 'timeout'

def main():
    ap = argparse.ArgumentParser()
    ap.add_argument('--work', required=True)
    ap.add_argument('--every', type=int, default=3)
    ap.add_argument('--offset', type=int, default=0)
    ap.add_argument('--files', default='')
    a = ap.parse_args()
    repo = os.path.join(a.work, 'repo')
    verif = os.path.join(a.work, 'verif')
    env = dict(os.environ, CARGO_NET_OFFLINE='true', CARGO_TARGET_DIR=os.path.join(a.work, 'repo-target'))
    cenv = dict(os.environ, CARGO_NET_OFFLINE='true', VERIF_SEED='1')
    cenv.pop('CARGO_TARGET_DIR', None)
    files = [f for f in CHECKS if not a.files or f in a.files.split(',')]
    n = 0
    for f in files:
        path = os.path.join(repo, f)
        orig = open(path).read()
        ss = sites(f, orig)
        for idx, (ln, st, en, oi) in enumerate(ss):
            n += 1
            if (n + a.offset) % a.every != 0:
                continue
            lines = orig.split('\n')
            line = lines[ln]
            new = line[:st] + OPS[oi][1] + line[en:]
            lines[ln] = new
            open(path, 'w').write('\n'.join(lines))
            tag = '%s:%d' % (f, ln + 1)
            desc = '%s -> %s' % (line.strip()[:70], new.strip()[:70])
            t0 = time.time()
            rc, out = run('cargo build --offline 2>&1 | tail -3', repo, 300, env)
            if 'error' in out and 'warning: unused' not in out.split('error')[0][-20:] and ('error[' in out or 'error:' in out):
                print('\t'.join([tag, 'no-compile', '', desc])); sys.stdout.flush()
                open(path, 'w').write(orig); continue
            rc, out = run('cargo test --workspace --no-fail-fast --offline 2>&1 | grep -E "^test result|panicked|FAILED|error" | head -5', repo, 600, env)
            if 'FAILED' in out or 'failed' in out and ' 0 failed' not in out or 'error' in out or rc == 124:
                print('\t'.join([tag, 'killed-by-suite', '', desc])); sys.stdout.flush()
                open(path, 'w').write(orig); continue
            caught = ''
            incon = ''
            for c in CHECKS[f].split():
                rc, out = run('bin/check %s quick 2>&1 | grep -E "^VIOLATION|^INCONCLUSIVE|^  stage=|violations=" | head -3' % c, verif, 900, cenv)
                if 'violations=' not in out and 'INCONCLUSIVE' not in out:
                    incon = c + ' (check did not run: ' + out[:80].replace('\n', ' ') + ')'
                    continue
                if 'VIOLATION' in out:
                    caught = c + ' ' + out.split('\n')[1][:160].strip() if '\n' in out else c
                    break
                if 'INCONCLUSIVE' in out:
                    incon = c
            print('\t'.join([tag, 'CAUGHT' if caught else ('inconclusive' if incon else 'SURVIVED'), caught or incon, desc, '%.0fs' % (time.time() - t0)])); sys.stdout.flush()
            open(path, 'w').write(orig)
        open(path, 'w').write(orig)

if __name__ == '__main__':
    main()
