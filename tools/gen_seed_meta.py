#!/usr/bin/env python3
"""Writes /verif/seeded/<name>/meta.json and /verif/seeded/RESULTS.md from work/seed-results.tsv."""
import json, os, collections
ROOT='/verif'
NEEDS = {
 'C01-m1': 'Patience fast path emits one equal() over a run of anchors adjacent in old only; needs >=2 both-side-unique anchors adjacent in old with a non-unique item between them in new ([1,2,3] vs [1,9,2,9,3])',
 'C01-m2': 'Myers shortcut for a 1-item side carries a stale new index on the trailing delete; needs a trimmed sub-problem whose new side is one item occurring inside the old side with old items after it ([1,2,3] vs [2])',
 'C02-m1': 'TextDiff >100-token path trims head/tail with the tail measured over the full ranges; needs >100 tokens and an insertion/removal inside a repeated run so prefix and suffix overlap',
 'C02-m2': 'Myers conquer checks the deadline before the prefix/suffix scan; needs a deadline already expired at probe 0 and identical non-empty inputs (ratio 0, Replace of everything)',
 'C03-m1': 'Myers max_d clamped to 128: deep searches silently take the deadline fallback; needs a single sub-problem with edit distance >= 255 and a non-empty LCS',
 'C03-m2': 'LCS builds both middle ranges from one shared start; needs old_range.start != new_range.start (sub-ranges): valid but non-minimal scripts',
 'C03-m3': 'Myers forward tie-break flipped (>= instead of <); needs a tie on the diagonal carrying the only optimal path ("baa" vs "cb")',
 'C04-m1': 'same head/tail overlap idea as C02-m1 in TextDiffConfig::diff (>100 tokens, pure insert/delete next to an equal token): duplicated tokens, repeated indices',
 'C04-m2': 're-introduces D5: [u8] unicode-word/grapheme tokenizers return U+FFFD strs; needs invalid UTF-8 bytes with those two tokenizers',
 'C05-m1': 'head/tail peeling in the >100-line branch with an overlapping tail: real insertions/deletions swallowed; needs >100 lines and a pure insert/delete adjacent to identical lines',
 'C05-m2': 'group_diff_ops no longer trims the trailing Equal to n; needs an unchanged tail after the last change with radius < len <= 2*radius',
 'C06-m1': '[u8] tokenize_words ASCII fast path with is_ascii_whitespace; needs the byte 0x0B (vertical tab)',
 'C06-m2': 'str tokenize_lines scans 32-byte blocks and cannot see an LF across a block boundary; needs a CR at byte offset 31 mod 32 followed by LF',
 'C07-m1': 'Myers returns the furthest forward point as a split when the deadline expires mid-search without checking bounds; needs expiry at a late probe with a short old side and a long dissimilar new side (out-of-range Delete)',
 'C07-m2': 'the >100-token branch of TextDiffConfig::diff drops the deadline; needs TextDiffConfig::deadline/timeout, >=101 tokens on a side and an expiring deadline',
 'C08-m1': 'Replace::finish uses Result::and (eager): after a failing flush the inner hook still gets the remaining flush and finish; needs the failing call to be one delivered from inside Replace::finish',
 'C08-m2': 'Compact::finish returns early when no ops were buffered: inner finish never called; needs Compact in the stack and both diffed ranges empty',
 'C08-m3': 'NoFinishHook loses its replace forwarder (default delete+insert instead); needs replace() to travel through NoFinishHook (e.g. Replace<NoFinishHook<hook>>) to a hook that overrides replace',
 'C09-m1': 'capture_diff_deadline strips common prefix/suffix before compaction: an insertion cannot slide into the common tail; needs a change region ending in a pure insertion whose first item equals the first suffix item, plus an earlier change',
 'C09-m2': 'Patience skips the gap Myers run after expiry and emits unguarded delete+insert: zero-length ops; needs Patience, expiry before the anchors are walked, an anchor with an empty gap side',
 'C10-m1': 'cleanup_diff_ops returns early for scripts with fewer than two change ops: a lone insertion is not slid down; needs a script whose only change is an insert whose first item equals the next equal item (never produced by the algorithms)',
 'C10-m2': 'this_op hoisted out of the loop in shift_diff_ops_up: stale ranges from the second slide step; needs an insertion that slides up twice past a doubled item and is not repaired by the down slide (Equal over unequal items)',
 'C11-m1': 'LCS tail-flush Delete carries old_base+new_idx as its new index; needs Lcs, sub-ranges with different starts and a deletion after the last match',
 'C11-m2': 'Patience single-item-gap fast path: trailing Delete carries item instead of item+1; needs Patience and a gap whose new side is one (repeated) item found inside the old side, not last',
 'C12-m1': 'group boundary uses len >= 2n instead of len > 2n; needs an interior equal run of exactly 2n items (n >= 1)',
 'C12-m2': 'leading context rebuilt assuming the first Equal starts at index 0; needs an op list whose first Equal has a non-zero base index (sub-range diffs, hand-built lists)',
 'C13-m1': 'ChangesIter Replace arm drops all inserts when the old side is empty; needs a hand-built Replace op with old_len == 0',
 'C13-m2': 'apply_to_hook passes old.len() twice for Replace; needs a Replace with old_len != new_len replayed through apply_to_hook',
 'C14-m1': '>100-token branch skips the common head before the integer mapping: Patience anchor set changes; needs >100 tokens, Patience and a head token that is unique only once the head is trimmed',
 'C14-m2': 'IdentifyDistinct uses old_range.start as the offset of both lookups; needs old_range.start != new_range.start',
 'C15-m1': 'unique() removes the map entry on a repeat, so items with an odd count >= 3 come back as unique; needs an odd-count item crossing and outnumbering genuine unique anchors',
 'C15-m2': 'Patience judges uniqueness only between the common head and tail; needs head/tail items that recur once more in the middle of both sides, crossing a genuine anchor',
 'C16-m1': 'push_values peels exactly one trailing newline byte instead of re-tokenising: the CR of a changed CRLF terminator stays emphasised; needs mixed LF/CRLF terminators inside a Replace op',
 'C16-m2': 'fast path for word-level Equal runs pushes the old side line index to both sides; needs a multi-line Replace with equal line counts where an unchanged word moves across a line boundary',
 'C17-m1': 'utils::diff_chars splits off a byte-wise common head: panics inside a multi-byte char; needs first differing chars that share leading UTF-8 bytes (e-acute vs e-grave)',
 'C17-m2': 'early-return shortcut in the four remapping helpers answers ("","") with [(Equal,"")]; needs both texts empty',
 'C18-m1': 'length pre-filter measured in bytes instead of chars; needs multi-byte chars spread unevenly and a cutoff between the byte bound and the real ratio',
 'C18-m2': 'bounded top-n heap evicts the lexicographically smallest of a tie; needs more than n qualifying candidates and a ratio tie straddling position n',
 'C19-m1': 'Patience pre-anchor scan runs to the end of the ranges and is clamped afterwards: quadratic on near-identical inputs with many unique items',
 'C19-m2': 'branch-free common_prefix_len/common_suffix_len never stop at the first mismatch: Myers becomes O((N+M)D^2); needs many edits (D in the high tens or hundreds)',
 'C20-m1': 'unique() takes the first 100 entries of the HashMap iterator before sorting; needs Patience, >100 once-only items per side, crossing anchors, and two executions',
 'C20-m2': '[u8] tokenize_words raw-byte fast path (is_ascii_whitespace) vs str char::is_whitespace; needs diff_words over VT or non-ASCII whitespace (NBSP, U+2028, ...)',
 'C20-m3': 'unique() counts occurrences in a 1024-slot table indexed by a fixed-key hash: colliding unique items are dropped as anchors; deterministic, only visible under relabelling; needs ~30+ unique items with crossing anchors',
}

NEEDS.update({
 'C01-r2m1': 'LCS memory guard hands middles with > 2^20 table cells to Myers but the tail flush still emits the middle again; needs LCS and a trimmed middle of more than 1 048 576 cells (1100 x 1000)',
 'C01-r2m2': 'xdiff-style cost limit in find_middle_snake picks a clamped point outside the ranges; needs one sub-problem with edit distance >= 2048 and one side shorter than d (100 vs 2100 distinct items): panic',
 'C01-r2m3': 'same-object fast path in common_prefix_len tests range ends instead of starts; needs old and new to be the very same buffer with ranges sharing an end but not a start',
 'C03-r2m1': 'snake probes capped at 2048 items per round; needs a matching run longer than 4096 items that also matches on neighbouring diagonals (block of identical items)',
 'C03-r2m2': 'Algorithm::Lcs dispatch silently falls back to Patience above 2^20 table cells; needs > 1M cells and a unique item crossing a longer common subsequence of repeated items',
 'C03-r2m3': 'capture_diff_slices shortcut for disjoint value ranges uses <= instead of <; needs combined length >= 256, sorted pages of values whose boundary value occurs on both sides',
 'C04-r2m1': 'id type for the >100-token path chosen from the longer side length (u8/u16/u32); needs 101..=255 tokens on the longer side and >= 256 distinct tokens overall (or 65536 at the next step)',
 'C04-r2m2': '32-bit hash fingerprints used as token ids without equality confirmation; needs >100 tokens and a 32-bit DefaultHasher collision between an old and a new token (about 1e-7 per pair)',
 'C04-r2m3': 'relative deadline computed as Instant::now() + duration; needs timeout(Duration::MAX)-like values: panic in every diff_* call',
 'C05-r2m1': 'IdentifyDistinct::<u16> in the >100-line branch; needs more than 65 536 distinct lines',
 'C05-r2m2': 'buffered hunk writer writes lines >= 8192 bytes straight through without flushing the pending buffer; needs to_writer and a shown line of at least 8 KiB',
 'C05-r2m3': 'write instead of write_all for line bytes; needs an io::Write that accepts only part of a buffer per call',
 'C07-r2m1': 'timeout() resolved when the builder is configured, not when the diff starts; needs real time passing between timeout() and diff_*() (reused config)',
 'C07-r2m2': 'duration_to_deadline adds without overflow check; needs timeout(Duration::MAX)-like values: panic',
 'C07-r2m3': 'LCS early return on a missing table emits the common suffix at range.len()-suffix instead of range.end-suffix; needs LCS, an expiring deadline, a sub-range with non-zero start and a common suffix',
 'C08-r2m1': 'LCS deadline path returns without calling finish; needs LCS and a deadline expiring while the table is built',
 'C08-r2m2': 'Patience bails out through finish() after expiry: finish called repeatedly; needs Patience, an expired deadline and at least one common unique item',
 'C08-r2m3': 'LCS hands middles above 2^18 cells to Myers on the caller\'s hook: finish twice with an equal in between; needs an LCS middle of more than 262 144 cells',
 'C09-r2m1': 'Compact flushes every 1024 buffered ops: an insertion cannot slide across a chunk boundary; needs >= 1024 raw ops and that alignment (about 1% of large Myers/Patience inputs)',
 'C09-r2m2': 'step budget 4096 + 16*ops for the slide loops; needs one insertion that must slide more than ~4100 positions (periodic run of > 2100 items)',
 'C10-r2m1': 'Compact gets a replace() that buffers DiffOp::Replace which the clean-up does not know: unreachable!() panic; needs the reversed stacking Replace<Compact<_>> (or hand-fed replace calls) and an insert sliding next to a buffered Replace',
 'C10-r2m2': 'Compact::equal flushes before any Equal of >= 128 items; needs one equal() call of 128+ items directly preceded by an insertion repeating the run\'s first item',
 'C13-r2m1': 'ChangesIter::nth override takes the remaining deletes from the total old length; needs nth()/step_by() on an iterator over a Replace op that has already yielded an item',
 'C13-r2m2': 'AllChangesIter re-targets one ChangesIter per op without resetting the reported indices; needs a non-contiguous op list, only reachable through UnifiedDiffHunk::new(ops, ..)',
 'C14-r2m1': 'IdentifyDistinct::<u16> when each side has <= 65535 tokens; needs more than 65 535 distinct tokens in total',
 'C14-r2m2': 'IdentifyDistinct keys its map by the 64-bit hash of the item only; needs an item type whose lawful Hash is coarser than its Eq',
 'C15-r2m1': 'unique() keyed by the 64-bit hash of each item; needs items with a lawful but coarse Hash (two different items sharing a hash leave the unique list)',
 'C15-r2m2': 'UniqueItem equality also compares cached hashes; needs old and new element types whose hashes disagree for equal values',
 'C16-r2m1': 'Replace ops with more than 256 lines are expanded in two halves (Deletes, Inserts, Deletes, Inserts); needs a Replace op covering >= 257 lines',
 'C16-r2m2': 'word tokenisation of a line stops after 4096 bytes and the rest token starts at the limit instead of the last word end; needs an emphasised line longer than 4 KiB',
 'C17-r2m1': 'u16 token ids when each side has <= 65535 tokens; needs >= 65 536 distinct tokens overall',
 'C17-r2m2': 'saturating_sub in SliceRemapper::slice: slice_old(0..0) returns the first token instead of None/panic; outside the property (ops are never empty; clean HEAD panics there in debug)',
 'C18-r2m1': 'heap key narrowed to u16; needs two qualifying candidates whose ratios differ by less than 1/65535 (words of 128+ chars) with lexicographic order opposite to ratio order',
 'C18-r2m2': 'result vector pre-sized with n; needs a huge n (usize::MAX, the idiomatic "all matches"): capacity overflow panic',
 'C19-r2m1': 'block-wise prefix/suffix scan restarts each 256-block from 0: an equal run of length L costs L + L^2/512 comparisons; needs equal runs of tens of thousands of items',
 'C19-r2m2': 'cheap fixed hasher in unique() mixing only length and the first 16 bytes of a key; needs many distinct string items of equal length sharing their first 16 bytes',
 'C20-r2m1': 'UniqueItem equality reduced to a 32-bit fixed-key fingerprint; needs a 32-bit hash collision between an old-unique and a different new-unique item (deterministic; visible only under relabelling)',
 'C20-r2m2': 'randomly keyed Bloom prefilter of unpaired unique items, skipped below 1024 unique items per side; needs Patience and >= 1024 unique items on a side',
})

NEEDS.update({
 'C02-r2m1': 'LCS memory guard above 2^26 table cells emits prefix, one delete and one insert and returns without the common suffix; needs Lcs, a middle of more than 8192 x 8192 items and a common suffix (cheap only with an expired deadline)',
 'C02-r2m2': '32-bit FNV-1a hashes used as token ids in the >100-token path; needs two distinct tokens with the same FNV-1a-32 value that get compared (about 2^-32 per pair)',
 'C06-r2m1': '[u8] tokenize_words classifies whitespace on raw UTF-8 byte patterns with an off-by-one range: U+200B ZERO WIDTH SPACE counts as whitespace; needs the bytes E2 80 8B',
 'C06-r2m2': 'shared is_whitespace_char lookup truncates the plane bits: supplementary characters whose low 16 bits are a whitespace code point (U+12000, U+2000B, ...) count as whitespace in str and [u8] alike',
 'C11-r2m1': 'compaction slide step bounded by 1024 but the following Equal still grows by the full common suffix: overlapping ops; needs an insert of more than 1024 identical items into a run of the same item',
 'C11-r2m2': 'LCS hands middles above 2^22 table cells to Myers which calls finish itself: Compact replays its buffer twice, every op captured twice; needs an LCS middle of more than ~2050 x 2050 items',
 'C12-r2m1': 'radius clamped to u32::MAX; needs n above 2^32-1 and an equal run longer than that (synthetic op lists only)',
 'C12-r2m2': 'TextDiff::grouped_ops returns no groups when ratio() >= 1.0; the f32 ratio rounds to 1.0 only for about 8.4 million tokens per side with a single changed token',
})
NEEDS.update({'C01-r3m1': 'Myers deadline fallback computes the insert length as new_range.end - old_range.start; needs an expiring deadline and an approximated section starting at different offsets in old and new (sub-ranges, or expiry inside a nested sub-problem)', 'C01-r3m2': 'Patience reports the common prefix up front but re-slices the new range from old_range.start; needs Patience, old_range.start != new_range.start and a common prefix', 'C01-r3m3': 'dispatcher fast path for an already expired deadline measures the common suffix on untrimmed ranges: head and tail overlap; needs an expired deadline and an insertion/deletion inside a repetition ([1] vs [1,1])', 'C02-r3m1': 'merged (Insert,Insert)/(Delete,Delete) arms in shift_diff_ops_up grow by the old-side length (0 for inserts); needs an insertion sliding up over a whole Equal run into an earlier insertion ("ab" vs "baa")', 'C02-r3m2': 'capture_diff_deadline fast path for an empty old range builds the Insert with new_index = old_range.start; needs an empty old sub-range whose start differs from new_range.start', 'C02-r3m3': 'TextDiffConfig::diff fast path for identical token lists returns [Equal{0,0,0}] for two empty texts; needs both inputs empty and a caller that looks at ops()', 'C03-r3m1': 'Myers gives up ("unrelated ranges") when no snake was extended after 64 rounds; needs a shared block flanked on all four sides by more than 32 items that match nothing', 'C03-r3m2': 'LCS table filled only in a diagonal band of |N-M|+128; needs Lcs and a best common subsequence pairing positions more than 128 apart (block moved past 129+ unrelated items)', 'C03-r3m3': 'head/tail peeled off before interning in the >100-token branch with the tail measured on untrimmed lists; needs >100 tokens and a duplicated neighbouring token', 'C04-r3m1': '[u8] tokenize_words sizes the first char of a token with len_utf8 (3 for U+FFFD); needs a 1-2 byte invalid sequence standing alone between blanks or at the end', 'C04-r3m2': 'tokenize_lines learns U+2028/U+2029 but the str side assumes a 1-byte terminator: panic inside the char; needs a str with U+2028/U+2029 and the line tokenizer', 'C04-r3m3': 'O(1) "same buffer" shortcut in TextDiffConfig::diff compares token START addresses; needs old and new to be views into one buffer with the same start and token count but a longer last token', 'C05-r3m1': 'UnifiedDiffHunk::to_writer decides the missing-newline marker with ends_with(b"\\n") only; needs a shown line terminated by a lone CR rendered through to_writer', 'C05-r3m2': 'Equal created after an upward slide reads new_index from the stale pre-shift copy; needs an insert that slides over a whole equal run, merges with an earlier insert and is followed by a Delete/Replace; visible in hunk headers at radius 0', 'C05-r3m3': 'diff_lines derives newline_terminated from "some line ends with a newline"; needs texts without any terminator (single unterminated lines) that differ: no missing-newline marker', 'C06-r3m1': '[u8] tokenize_chars splits U+FFFD ranges byte-wise "for binary garbage": a literal U+FFFD (EF BF BD) becomes three tokens; needs a validly encoded U+FFFD', 'C06-r3m2': 'str tokenize_lines takes a CR-free fast path after sniffing the first 4096 bytes; needs a str longer than 4 KiB without CR in the first 4096 bytes and a lone CR later', 'C06-r3m3': '[u8] tokenize_lines emits a leading UTF-8 BOM as its own token; needs a byte string starting with EF BB BF', 'C07-r3m1': 'thread-local cache of the last deadline seen expired compares the wrong way round; needs two diffs on one thread: one with a really expired deadline, then one with a far deadline/timeout', 'C07-r3m2': 'TextDiffConfig keeps deadline and timeout in two fields and timeout always wins; needs timeout() then deadline() on one builder', 'C07-r3m3': 'Patience gap diffs moved into a helper that calls myers::diff without the deadline; needs Patience, an expired deadline and a matched anchor preceded by a large dissimilar non-unique stretch (promptness only)', 'C08-r3m1': 'Compact::finish always finishes the wrapped hook, also after a failed replay; needs Compact in the stack and an inner hook failing during the replay', 'C08-r3m2': 'Patience strips common affixes for inputs >= 1024 items and reports the suffix after the user hook was finished; needs Patience, >= 1024 items and a common suffix', 'C08-r3m3': 'forwarders generated by a macro: &mut D loses its finish forwarder; needs a hook stack in which an adapter owns a &mut hook (Replace::new(&mut h), Compact::new(&mut h, ..))', 'C09-r3m1': 'slide-down gate peeks at old[ins.old_index], which is stale after the up-swap; needs a Replace preceded by an equal run ending in the last inserted item ("baba" vs "bbb")', 'C09-r3m2': 'Compact::finish skips the clean-up for scripts with at most one change op; needs a hand-fed script whose only change is an insert placed earlier than necessary', 'C09-r3m3': 'slide-down stops after a "partial" match although the prefix was bounded by a short Equal op; needs an inserted block of >= 2 items sliding over an Equal shorter than the block with the match continuing in the next op', 'C10-r3m1': 'Equal created by an upward partial slide gets prev_op.new_range().end as its new index; needs Insert A, Equal R, Insert B with B longer than R, ending in R, not followed by an Equal', 'C10-r3m2': 'slide-down early exit when only part of the insertion matched; needs a split Equal run (hand-fed scripts) after an insertion of >= 2 items', 'C10-r3m3': 'upward merge of two insertions grows the survivor by its own length; needs an insertion sliding up over a complete equal run into an earlier insertion of a different length', 'C11-r3m1': 'tail re-attached behind an upward-sliding insertion keeps its pre-move new index; needs the insertion to swallow the whole preceding Equal and meet an earlier edit, or be followed by a Delete', 'C11-r3m2': '>100-token branch strips head and tail before interning with the tail measured against the full new side; needs >100 lines and the removal of a doubled line', 'C11-r3m3': 'Myers cost limit d > max(256, sqrt(n+m)) takes the fallback delete+insert(old.start); needs >512 edits in one section and compaction sliding the Insert behind an Equal (stale old_index that passes through the swap site)', 'C12-r3m1': 'TextDiff::grouped_ops caches the last grouping and reuses a single-group result for any larger radius; needs two calls on one diff, the first with a smaller radius giving exactly one group', 'C12-r3m2': 'Capture keeps a dirty flag that insert() forgets to set: into_grouped_ops returns no groups; needs a diff whose only changes are Insert ops, grouped through Capture::into_grouped_ops', 'C12-r3m3': 'radius above usize::MAX/2 returns vec![ops] untrimmed; needs such a radius with an op list without changes (a group of Equal only) or an outer run longer than n', 'C13-r3m1': 'AllChangesIter::next advances once instead of looping; leading empty ops are skipped in new(); needs a hand-built hunk with an empty op in the middle (all radius-0 groups concatenated)', 'C13-r3m2': 'DiffOp::iter_slices rewritten over as_tag_tuple takes an Equal run from new; needs old/new items that are equal but distinguishable, or an Equal op over unequal sequences', 'C13-r3m3': 'apply_to_hook silently drops ops that cover nothing; needs a zero-length op (the Equal anchors of radius-0 groups) replayed into a capturing hook', 'C14-r3m1': '>100-token branch builds the TextDiff with the tokenizer default for newline_terminated, ignoring the override; needs >100 tokens and an explicit override different from the default', 'C14-r3m2': 'IdentifyDistinct run fast path (item equals its predecessor) guarded by idx > 0 instead of idx > range.start; needs a non-zero range start inside a run of equal items', 'C14-r3m3': 'Algorithm::Lcs silently computed with Myers above 2^20 table cells in the >100-token branch; needs Lcs, > 1 M cells and an input where the two break ties differently', 'C15-r3m1': 'unique() fills its repeated-flags by absolute index but reads them range-relative; needs Patience on a sub-range with non-zero start and repeats crossing a unique common item', 'C15-r3m2': 'one Myers pass per RUN of anchors (first and last only); needs >= 3 unique common items consecutive in both unique lists and a repeated block crossing a middle one', 'C15-r3m3': '"old has no repeats" fast path falls back to plain Myers; needs old without repeats and new with repeats arranged so that the LCS avoids a unique common item', 'C16-r3m1': 'MultiLookup reuses the tokens of an identical previous line with a stale start marker; needs >= 3 identical consecutive lines on one side of a Replace op', 'C16-r3m2': 'newline un-emphasising skipped when newline_terminated() is false; needs a line diff built with newline_terminated(false) or diff_slices over lines with terminators and a changed terminator', 'C16-r3m3': 'get_original_slices rewrite uses a sub-slice-relative line index; needs a Replace with >= 4 lines on a side and a word run spanning >= 3 lines that starts after the first line', 'C17-r3m1': 'shared word_ranges helper sizes runs with char::len_utf8; needs [u8] input, word tokenization and an invalid sequence shorter than 3 bytes', 'C17-r3m2': 'DiffOp::iter_slices takes Equal runs from new; needs slices checked for identity (pointer) or items that are equal but distinguishable', 'C17-r3m3': 'SliceRemapper fast path when token count == byte length; needs a caller-defined tokenization with an empty token and multi-byte tokens (count equals length)', 'C18-r3m1': 'length pre-filter replaced by a precomputed f32 length window that rounds the other way; needs a cutoff equal to a candidate ratio bit for bit with an unlucky length pair ((3,7), (1,2), ...)', 'C18-r3m2': 'QuickSeqRatio flat table for one-byte tokens: new() and calc() classify stray bytes 0x80-0xFF differently; needs [u8] input with single non-UTF-8 bytes shared by word and candidate', 'C18-r3m3': 'get_close_matches compares grapheme clusters instead of chars when the unicode feature is on; needs a multi-code-point cluster partially matching the other side', 'C19-r3m1': 'Patience re-anchors the tail after the last anchor recursively; needs values occurring twice a few positions apart, interleaved, with a unique item only at the front (quadratic at D=0)', 'C19-r3m2': 'unique() keeps an ordered candidate list and removes repeats by linear search; needs many distinct values whose second occurrence is far from the first', 'C19-r3m3': 'budgeted forward-only probe splits at the last snake: conquer recurses D levels; needs ~100 <= D <= (N+M)/16 scattered edits on repetitive content', 'C20-r3m1': '[u8] tokenize_lines scans 64-byte blocks and looks for the LF after a CR only inside the block; needs a CRLF whose CR sits at offset 63 mod 64 (bytes only: str and bytes disagree)', 'C20-r3m2': '>100-token branch interns as_bytes() instead of the tokens; needs a caller-defined DiffableStr type whose Eq is coarser than byte equality and > 100 tokens', 'C20-r3m3': 'capture_diff_deadline interns items wider than a machine word (>100 items) only between the common head and tail: Patience anchors change; needs Patience, >100 items, a wide item type compared with a narrow relabelling, and a head/tail item unique in the middle'})
EXTRA = {
 'C02-r2m1': 'not reachable by C02 (an exact LCS diff of 8192 x 8192 items is infeasible); caught by C07 (huge-expired stage)',
 'C02-r2m2': 'NOT CAUGHT: needs a 32-bit hash collision between two generated tokens (probability about 2^-32 per compared pair); outside what generated-input search can reach without knowing the hash',
 'C04-r2m2': 'NOT CAUGHT: same as C02-r2m2 (32-bit DefaultHasher fingerprint collision)',
 'C04-r2m3': 'a timeout-overflow panic; C04 does not configure timeouts, caught by C07 (wall-clock stage)',
 'C11-r2m2': 'quick tier does not build LCS tables of 4 M cells; caught by the thorough tier of C01 (large stage, 2100 x 2100) as a double finish',
 'C12-r2m2': 'NOT CAUGHT: needs about 8.4 million tokens per side (0.5 GB, several seconds per case); documented as out of the explored bounds',
 'C17-r2m2': 'NOT CAUGHT and not claimed: slice_old(0..0) is outside the property (ops are never empty; the unchanged code panics there in debug builds)',
}

EXTRA.update({'C01-r3m1': 'C01 quantifies over deadline-free calls; the change only acts when a deadline expires: caught by C07 and C02 (whose domains include deadlines)', 'C01-r3m3': 'as C01-r3m1: only acts with an expired deadline; caught by C07 and C02'})

# cumulative, committed results: seeded/results.tsv (name, check, exit, message); new lines of
# work/seed-results.tsv (written by tools/run_seed.sh) are merged in, the latest run of a
# (change, check) pair wins
res = collections.defaultdict(dict)
PERSIST = os.path.join(ROOT, 'seeded', 'results.tsv')
if os.path.exists(PERSIST):
    for l in open(PERSIST):
        f = l.rstrip('\n').split('\t')
        if len(f) >= 3:
            res[f[0]][f[1]] = (int(f[2]), f[3] if len(f) > 3 else '')
else:
    # first run of this version: recover the results of rounds 1 and 2 from the existing meta.json files
    for name in os.listdir(os.path.join(ROOT, 'seeded')):
        mp = os.path.join(ROOT, 'seeded', name, 'meta.json')
        if os.path.exists(mp):
            m = json.load(open(mp))
            checks = ['C%02d' % i for i in range(1, 21)] if 'for all 20' in m.get('ran_against_checks', '') and '-r2' not in name else [m['breaks_property']]
            for c in checks:
                res[name][c] = (0, '')
            for c in m.get('caught_by_quick_checks', []):
                res[name][c] = (1, m.get('primary_message', '') if c == m['breaks_property'] else '')
            for c in m.get('inconclusive', []):
                res[name][c] = (2, '')
wp = os.path.join(ROOT, 'work/seed-results.tsv')
if os.path.exists(wp):
    for l in open(wp):
        f = l.rstrip('\n').split('\t')
        if len(f) < 5: continue
        res[f[0]][f[1]] = (int(f[2]), f[5] if len(f) > 5 else '')
with open(PERSIST, 'w') as out:
    for name in sorted(res):
        for c in sorted(res[name]):
            rc, msg = res[name][c]
            out.write('%s\t%s\t%d\t%s\n' % (name, c, rc, msg.replace('\t', ' ')[:400]))
rows = []
for name in sorted(os.listdir(os.path.join(ROOT,'seeded'))):
    d = os.path.join(ROOT,'seeded',name)
    if not os.path.isdir(d): continue
    prop = name.split('-')[0]
    r = res.get(name, {})
    caught = sorted(c for c,(rc,_) in r.items() if rc == 1)
    inconcl = sorted(c for c,(rc,_) in r.items() if rc == 2)
    meta = {
        'name': name,
        'breaks_property': prop,
        'origin': ('round 3 (independent): written by a fresh sub-agent that was given only the text of the property (statement, quantifier, anchors), its own scratch worktree of /repo, and one-line summaries of the changes already proposed for that property in rounds 1 and 2 (so that it proposes different ones) - nothing from /verif' if '-r3' in name else 'round 2 (adversarial): written by a fresh sub-agent that was given the text of the property, the ideas already used in round 1, and a description of the INPUT SPACE my generators covered at that time, and was asked for changes that survive it' if '-r2' in name else 'round 1: written by a fresh sub-agent that was given only the text of the property and its own scratch worktree of /repo (nothing from /verif)'),
        'needs_to_manifest': NEEDS.get(name, ''),
        'validated_by_me': 'tools/validate_seed.sh: patch applies to /repo HEAD in a scratch worktree; `cargo test --workspace --no-fail-fast --offline` passes with it (41 tests); demo.rs (as tests/demo.rs, `cargo test --offline --all-features --test demo`) fails with the patch and passes without',
        'ran_against_checks': 'tools/run_seed.sh %s %s  (git -C /repo apply patch.diff; bin/check <ID> quick; git -C /repo checkout -- .)' % (name, ' '.join(sorted(r))),
        'caught_by_quick_checks': caught,
        'inconclusive': inconcl,
        'primary_check_catches': prop in caught,
        'primary_message': r.get(prop, (0,''))[1][:400],
        'note': EXTRA.get(name, ''),
    }
    json.dump(meta, open(os.path.join(d,'meta.json'),'w'), indent=1)
    rows.append((name, prop, prop in caught, caught, NEEDS.get(name,'') + ((' — ' + EXTRA[name]) if name in EXTRA else '')))
with open(os.path.join(ROOT,'seeded','RESULTS.md'),'w') as f:
    f.write('# Seeded changes vs quick checks\n\nEach change compiles, passes the 41 existing tests and breaks the named property (validated in a scratch worktree). "caught by" lists every quick check (VERIF_SEED=1) that reported a VIOLATION with the change applied to /repo.\n\n| change | breaks | primary check catches | caught by | needs |\n|---|---|---|---|---|\n')
    for name, prop, ok, caught, needs in rows:
        f.write('| %s | %s | %s | %s | %s |\n' % (name, prop, 'yes' if ok else '**NO**', ' '.join(caught), needs))
print(len(rows), 'seeds;', sum(1 for r in rows if not r[2]), 'not caught by their primary check')
