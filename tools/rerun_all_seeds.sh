#!/bin/bash
# tools/rerun_all_seeds.sh [name-glob]  — re-runs every seeded change against the quick check of its own
# property (plus the checks listed in EXTRA below for changes whose own property is not where they
# show), through tools/run_seed.sh (apply to /repo, run, revert).  Results are appended to
# work/seed-results.tsv; tools/gen_seed_meta.py merges them into seeded/results.tsv.
set -u
G="${1:-*}"
declare -A EXTRA=( [C02-r2m1]="C07" [C11-r6m3]="C07" [C20-r6m3]="C07" [C04-r2m3]="C07" [C01-r3m1]="C07 C02" [C01-r3m3]="C07 C02" [C11-r4m3]="C07" [C20-r4m2]="C07" )
for d in /verif/seeded/$G/; do
  n=$(basename "$d")
  [ -f "$d/patch.diff" ] || continue
  p="${n%%-*}"
  /verif/tools/run_seed.sh "$n" $p ${EXTRA[$n]:-} | grep rc=
done
echo ALL-DONE
