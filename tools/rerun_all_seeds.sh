#!/bin/bash
# tools/rerun_all_seeds.sh [name-glob]  — re-runs every seeded change against the quick check of its own
# property (applies to /repo, reverts).  Output: work/rerun-seeds.tsv  (name, check, exit code)
set -u
G="${1:-*}"
OUT=/verif/work/rerun-seeds.tsv
: > "$OUT"
for d in /verif/seeded/$G/; do
  n=$(basename "$d")
  [ -f "$d/patch.diff" ] || continue
  p=$(python3 -c "import json;print(json.load(open('$d/meta.json'))['breaks_property'])" 2>/dev/null || echo "${n%%-*}")
  if [ -n "$(git -C /repo status --porcelain --untracked-files=no)" ]; then echo "/repo not clean"; exit 2; fi
  git -C /repo apply "$d/patch.diff" || { echo "$n apply-failed" >> "$OUT"; continue; }
  out=$(/verif/bin/check $p quick 2>&1); rc=$?
  git -C /repo checkout -- .
  printf "%s\t%s\t%s\t%s\n" "$n" "$p" "$rc" "$(echo "$out" | grep -E '^  stage=' | head -1 | cut -c1-200)" >> "$OUT"
done
echo done >> "$OUT"
