#!/usr/bin/env python3
"""Replaces the seeded-change table at the end of DESIGN.md by the one in seeded/RESULTS.md."""
import re
d = open('/verif/DESIGN.md').read()
r = open('/verif/seeded/RESULTS.md').read()
tbl = r[r.index('| change | breaks |'):]
i = d.index('| change | breaks |')
open('/verif/DESIGN.md', 'w').write(d[:i] + tbl)
print('table rows:', tbl.count('\n') - 2)
