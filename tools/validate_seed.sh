#!/bin/bash
# tools/validate_seed.sh <property-id> <mN> [dir-prefix=seed] [name-tag] : validates /tmp/<prefix>-<ID>/_out/<mN>.{diff,_demo.rs}
# in a scratch worktree: patch applies, 41-test suite passes with it, demo fails with it and
# passes without it.  On success copies the files to /verif/seeded/<ID>-<mN>/ with meta.json.
set -u
ID="$1"; M="$2"; PREFIX="${3:-seed}"; TAG="${4:-}"
SRC="/tmp/$PREFIX-$ID/_out"
WT="/tmp/val-$ID-$TAG$M"
OUT="/verif/seeded/$ID-$TAG$M"
LOG="/verif/work/validate-$ID-$TAG$M.log"
mkdir -p /verif/work /verif/seeded
[ -f "$SRC/$M.diff" ] || { echo "$ID $M: no diff"; exit 1; }
git -C /repo worktree remove --force "$WT" >/dev/null 2>&1
rm -rf "$WT"
git -C /repo worktree add -q --detach "$WT" HEAD || { echo "$ID $M: worktree failed"; exit 1; }
cleanup() { git -C /repo worktree remove --force "$WT" >/dev/null 2>&1; rm -rf "$WT"; }
trap cleanup EXIT
cd "$WT"
export CARGO_TARGET_DIR="$WT/target" CARGO_NET_OFFLINE=true
{
echo "== apply"; git apply "$SRC/$M.diff" || { echo "RESULT apply-failed"; exit 0; }
echo "== suite with change"
cargo test --workspace --no-fail-fast --offline 2>&1 | grep -E "^test result|FAILED|panicked|^error" 
S1=${PIPESTATUS[0]}
mkdir -p tests; cp "$SRC/${M}_demo.rs" tests/demo.rs
echo "== demo with change"
cargo test --offline --all-features --test demo 2>&1 | grep -E "^test result|^test .* (ok|FAILED)|^error" | head -20
D1=${PIPESTATUS[0]}
git checkout -q -- src
echo "== demo without change"
cargo test --offline --all-features --test demo 2>&1 | grep -E "^test result|^test .* (ok|FAILED)|^error" | head -20
D0=${PIPESTATUS[0]}
echo "RESULT suite_with=$S1 demo_with=$D1 demo_without=$D0"
} > "$LOG" 2>&1
R=$(grep "^RESULT" "$LOG" | tail -1)
if [ "$R" = "RESULT suite_with=0 demo_with=101 demo_without=0" ]; then
    mkdir -p "$OUT"
    cp "$SRC/$M.diff" "$OUT/patch.diff"
    cp "$SRC/${M}_demo.rs" "$OUT/demo.rs"
    cp "$SRC/$M.md" "$OUT/notes.md" 2>/dev/null
    echo "$ID $M: VALID"
else
    echo "$ID $M: REJECTED ($R) see $LOG"
fi
