#!/usr/bin/env python3
"""Regenerates /verif/MANIFEST.json from the table below (keeps it valid at all times)."""
import json, os, subprocess

ROOT = os.path.dirname(os.path.dirname(os.path.abspath(__file__)))

# id -> (built, category, technique, level text, level note, design ref)
P = {}
def prop(pid, built, technique, text, note, category="exploration"):
    P[pid] = dict(built=built, technique=technique, text=text, note=note, category=category)

prop("C01", True,
     "property-based testing: bounded-exhaustive enumeration + proptest random generation against a stream-validity oracle, replay round-trip, and 3 differential/metamorphic relations (range-checked lookup, offset lookups, extracted slices shifted)",
     "Generated-input search over (algorithm, old, new, ranges): every callback stream is judged by an independent validator written from the statement (order, contiguity, coverage, non-empty, element-wise equality, carried indices within their change run), by replaying the callbacks, and by three differential runs. Exhaustive for the stated small scopes, sampled above them; no absence proof.",
     "u32 items; sizes <= 300; panics located in /repo count as violations; the validator itself is the trusted base")

prop("C02", True,
     "property-based testing: enumeration + proptest generation of (inputs, sub-ranges, entry point, deadline expiry index) against an op-list walk validator and an apply/invert round trip; text diffs over 5 tokenizers",
     "Generated-input search; the oracle walks primary indices, checks element equality of Equal ops, applies and inverts the ops, checks identical-input and ratio clauses. Deadline expiry points are chosen by the harness through the virtual clock hook. Bounded exploration, exhaustive for the small enumerated scope.",
     "virtual clock hook places expiry at probe k; u32 items / atom-built texts; carried indices left to C11")
prop("C03", True,
     "property-based testing: enumeration + proptest generation against an independent O(NM) LCS-length reference (differential oracle on script cost and ratio)",
     "Every generated (Myers|Lcs) diff is compared with a reference LCS length: raw stream and captured ops must cost exactly N+M-2L and keep L items; get_diff_ratio and TextDiff::ratio must equal 2L/(N+M). Exhaustive over all pairs of a 3-letter alphabet up to the stated length, sampled above.",
     "reference DP is the trusted base; LCS inputs <= 100 items, Myers <= 300")
prop("C09", True,
     "property-based testing: enumeration + proptest generation against a normal-form predicate (alternation, non-empty, Replace merging, latest-position rule)",
     "Generated-input search over inputs x sub-ranges x entry points x deadline expiry index; the predicate is the statement clause by clause. Exhaustive for all binary pairs up to the stated length.",
     "virtual clock hook; C10 adds arbitrary scripts through Compact+Replace")
prop("C11", True,
     "property-based testing: enumeration + proptest generation against an exact carried-index walk and an independent hunk-header computation; known finding attributed by differential re-execution with the swap-repair hook",
     "Generated-input search; each case is judged on pinned behaviour first; a carried-index/header mismatch is re-executed with the swap repair on and only counts as the known finding D7 if it disappears, otherwise it is reported. Primary-index mismatches are always reported.",
     "swap-repair hook used for attribution only; known finding listed in KNOWN_FINDINGS.txt")

def main():
    checks = []
    na = []
    for pid in sorted(P):
        p = P[pid]
        if not p["built"]:
            na.append({"property_id": pid, "reason": p["note"]})
            continue
        checks.append({
            "property_id": pid,
            "quick_cmd": f"bin/check {pid} quick",
            "thorough_cmd": f"bin/check {pid} thorough",
            "evidence_file": f"/verif/evidence/{pid}.json",
            "replay_cmd_template": f"target/release/vcheck --property {pid} --replay {{path}}",
            "engine": "vharness",
            "level_claimed": {"category": p["category"], "text": p["text"], "design_ref": f"DESIGN.md section 7 ({pid})"},
            "level_note": p["note"],
            "technique": p["technique"],
        })
    all_ids = [json.loads(l)["id"] for l in open(os.path.join(ROOT, "properties.jsonl"))]
    for pid in all_ids:
        if pid not in P:
            na.append({"property_id": pid, "reason": "check not built yet (work in progress in this session; the design in DESIGN.md section 7 applies the technique to it)"})
    commits = subprocess.run(["git", "-C", "/repo", "log", "--format=%h %s"], capture_output=True, text=True).stdout.splitlines()
    hook_commits = [c.split()[0] for c in commits if c.split(" ", 1)[1].startswith("verif hook")]
    m = {
        "version": 1,
        "setup_cmd": "bin/setup",
        "hooks": {
            "guard": "similar_verif",
            "enable": "RUSTFLAGS=\"--cfg similar_verif\" (set in harness/.cargo/config.toml and fuzz/.cargo/config.toml; similar is a path dependency on /repo so every check rebuilds the working tree)",
            "baseline_off_cmd": "cd /repo && cargo test --workspace --no-fail-fast --offline",
            "source_commits": hook_commits,
            "add_only": True,
        },
        "engines": [
            {"name": "vharness", "path": "/verif/harness", "serves_properties": [c["property_id"] for c in checks],
             "kind_free_text": "Rust harness (lib voracle + bin vcheck): proptest 1.11 strategies driven by a seeded runner, bounded-exhaustive enumerators, independent oracles, shrinking, replay and evidence writers"},
            {"name": "vfuzz", "path": "/verif/fuzz", "serves_properties": [],
             "kind_free_text": "cargo-fuzz/libFuzzer targets that feed the fuzzer's bytes through the same proptest strategies (PassThrough RNG) into the same oracles; thorough tier only"},
        ],
        "checks": checks,
        "not_applicable": na,
        "notes": "All checks: exit 0 held / 1 VIOLATION line / 2 inconclusive. VERIF_SEED selects the PRNG stream (default 1). Known findings: /verif/KNOWN_FINDINGS.txt.",
    }
    json.dump(m, open(os.path.join(ROOT, "MANIFEST.json"), "w"), indent=1)
    print("checks:", len(checks), "not_applicable:", len(na))

if __name__ == "__main__":
    main()
