#!/usr/bin/env python3
"""Regenerates /verif/MANIFEST.json from the table below (keeps it valid at all times)."""
import json, os, subprocess

ROOT = os.path.dirname(os.path.dirname(os.path.abspath(__file__)))

# id -> (built, category, technique, level text, level note, design ref)
P = {}
def prop(pid, built, technique, text, note, category="exploration"):
    P[pid] = dict(built=built, technique=technique, text=text, note=note, category=category)

prop("C01", True,
     "property-based testing: bounded-exhaustive enumeration + proptest random generation against a stream-validity oracle, replay round-trip, and 3 differential/metamorphic relations (range-checked lookup, offset lookups, extracted slices shifted)",
     "Generated-input search over (algorithm, old, new, ranges): every callback stream is judged by an independent validator written from the statement (order, contiguity, coverage, non-empty, element-wise equality, carried indices within their change run), by replaying the callbacks, and by three differential runs. Exhaustive for the stated small scopes, sampled above them; no absence proof.",
     "u32 items; sizes <= 300; panics located in /repo count as violations; the validator itself is the trusted base")

prop("C02", True,
     "property-based testing: enumeration + proptest generation of (inputs, sub-ranges, entry point, deadline expiry index) against an op-list walk validator and an apply/invert round trip; text diffs over 5 tokenizers",
     "Generated-input search; the oracle walks primary indices, checks element equality of Equal ops, applies and inverts the ops, checks identical-input and ratio clauses. Deadline expiry points are chosen by the harness through the virtual clock hook. Bounded exploration, exhaustive for the small enumerated scope.",
     "virtual clock hook places expiry at probe k; u32 items / atom-built texts; carried indices left to C11")
prop("C03", True,
     "property-based testing: enumeration + proptest generation against an independent O(NM) LCS-length reference (differential oracle on script cost and ratio)",
     "Every generated (Myers|Lcs) diff is compared with a reference LCS length: raw stream and captured ops must cost exactly N+M-2L and keep L items; get_diff_ratio and TextDiff::ratio must equal 2L/(N+M). Exhaustive over all pairs of a 3-letter alphabet up to the stated length, sampled above.",
     "reference DP is the trusted base; random LCS inputs mostly <= 100 items (1 in ~120: 130-420), Myers <= 900; fixed large cases up to 1.1 M table cells and 65 602 x 4 items")
prop("C09", True,
     "property-based testing: enumeration + proptest generation against a normal-form predicate (alternation, non-empty, Replace merging, latest-position rule)",
     "Generated-input search over inputs x sub-ranges x entry points x deadline expiry index; the predicate is the statement clause by clause. Exhaustive for all binary pairs up to the stated length.",
     "virtual clock hook; arbitrary valid scripts (C10's generator, all scripts of small pairs) through Compact+Replace are part of this check too")
prop("C11", True,
     "property-based testing: enumeration + proptest generation against an exact carried-index walk and an independent hunk-header computation; known finding attributed by differential re-execution with the swap-repair hook",
     "Generated-input search (captures without a deadline and under a deadline that runs out); each case is judged on pinned behaviour first; a carried-index/header mismatch is re-executed with the swap repair on and only counts as the known finding D7 if it disappears, otherwise it is reported. Primary-index mismatches are always reported.",
     "swap-repair hook used for attribution only; known finding listed in KNOWN_FINDINGS.txt")

prop("C04", True,
     "property-based testing: proptest generation of text pairs from an atom grammar (+ small enumeration) against a byte-exact reconstruction round trip and an index-sequence oracle",
     "Generated-input search over texts x 5 tokenizers x 3 algorithms x {str,[u8]} incl. invalid UTF-8, CR/LF mixes and sizes straddling 100 tokens; the oracle concatenates change values and compares with the inputs byte for byte and checks the index discipline of every change.",
     "texts are built from a fixed atom alphabet; bounded sizes")
prop("C05", True,
     "property-based testing: enumeration + proptest generation of line texts against an independently written unified-diff reader and strict patch applier (round trip), plus differentials Display/to_writer/per-hunk/quick-function; known finding attributed by re-execution with the swap-repair hook",
     "Every rendered diff is parsed by an independent reader and applied strictly to old; result must be new byte for byte; header counts/starts, ordering, context radius, marker placement, empty output for equal inputs and the writer/Display relations are checked. Header-only failures are re-executed with the swap repair on and count as known finding D7 only if they vanish.",
     "reader/applier are the trusted base; newline_terminated(false) overrides are outside the stated domain")
prop("C06", True,
     "property-based testing: bounded-exhaustive enumeration over a 13-atom alphabet + proptest generation (atoms, invalid UTF-8 fragments, biased raw bytes) against reference tokenizers and a pointer-level partition oracle; str/[u8] differential",
     "All six tokenizers on str and [u8]: tokens must be non-empty consecutive sub-slices covering the input (pointer arithmetic), equal to reference splitters for lines/words/lines_and_newlines, single scalars for chars, and identical between str and [u8] on valid UTF-8. Exhaustive for all strings of <= 4 (5) atoms.",
     "reference splitters are the trusted base; unicode segmentation is only required to be a lossless partition")
prop("C07", True,
     "fault enumeration with property-based generation: for every generated input every deadline-probe index k (virtual clock hook) is executed against the C01/C02/C09 oracles, a post-expiry comparison counter, metamorphic relations (never-expiring == none, k>=T == none) and plumbing differentials",
     "The harness owns time: the k-th deadline probe reports expiry. For each input all k in 0..=T (T<=64) or a sample are executed; validity, finish-once, promptness (<= 4(N+M)+16 comparisons after expiry), equality with no deadline when not reached, plumbing through TextDiffConfig::deadline/timeout and capture_diff_slices_deadline, and the real clock are checked: a deadline already passed (total comparison budget), a deadline one hour ahead, a real deadline that passes in mid-run (an item whose == waits for it; bounded later comparisons), never-expiring deadlines on inputs with shortest scripts of thousands of edits, and a builder whose absolute deadline was configured earlier.",
     "probe-indexed time cannot see a probe that is consulted too rarely; the three real-clock runs do, with timing-independent verdicts; promptness constants calibrated with >= 4x head-room", "fault_enumeration")
prop("C08", True,
     "fault enumeration with property-based generation: for every generated (input, algorithm, adapter stack, hook flavour) every hook-call index is made to fail; oracle = prefix relation with the success log, exact error value, finish-once-and-last",
     "A recording hook fails at call k for every k of the success log, through 12 adapter stacks (incl. Replace<Replace>, replayed captured ops, one adapter instance used for two diffs) and both replace flavours, plus hook methods called by hand (replace events with empty sides); the diff must return exactly Err(k) with no further call, the calls seen must be a prefix of the success log; finish exactly once and last; NoFinishHook and &mut forwarding and default replace expansion are checked differentially.",
     "error identity is checked by value (the call index)", "fault_enumeration")
prop("C10", True,
     "property-based testing over histories: exhaustive DFS over all valid edit scripts of small pairs + proptest-generated scripts (choice list + interpreter, shrunk as one value) pushed through Compact/Replace; oracle = script validator, cost preservation, normal form, exact carried indices",
     "Arbitrary valid scripts (not only algorithm output) are the input histories; outputs must stay valid scripts with identical deleted/inserted counts, be complete at finish, be in normal form through both adapters and carry exact indices through Replace alone (also when one Replace adapter is fed twice); no panic (debug assertions on).",
     "scripts validated by the C01 validator before use (generator self-test => exit 2)")
prop("C12", True,
     "property-based testing: enumeration of op lists (alternating, and with adjacent non-Equal ops) + proptest generation (run lengths biased to n, 2n, 2n+1) against a reference grouping written from the statement and clause-wise predicates; differential between group_diff_ops, Capture::into_grouped_ops and TextDiff::grouped_ops",
     "Synthetic and real op lists x radius n: flattened changes preserved, no all-equal group, edge context <= n, interior <= 2n, equality with the reference grouping modulo zero-length Equal ops.",
     "domain = valid op lists without two adjacent Equal ops; zero-length Equal ops tolerated")
prop("C13", True,
     "property-based testing: enumeration + proptest generation of single ops over injectively valued sequences against an exact expected expansion; differential whole-diff vs per-op iteration",
     "Every op kind with arbitrary offsets/lengths expands to the exact expected (tag, indices, value) vector; an iterator-protocol script (next/nth/size_hint, fold-based consumers after partial consumption) walks the same expansion; every iterator of the crate (per-op, whole-diff, hunk, hunk list) agrees with its next() walk under every std consumer, fresh and partially consumed; slices agree; apply_to_hook round-trips; TextDiff/UnifiedDiffHunk whole iteration (also over hand-built op lists with empty ops, reversed lists, Equal-as-Replace lists) equals concatenated per-op expansion.",
     "in-bounds by construction")
prop("C14", True,
     "property-based testing: proptest generation of texts with token counts on both sides of the 100-token switch; differential oracle TextDiff::ops vs capture_diff_slices over the tokenizer output; IdentifyDistinct id-equality oracle over 5 integer types",
     "The two code paths of TextDiffConfig::diff (direct / IdentifyDistinct) must both equal the plain sequence diff of the tokens for every tokenizer, algorithm and newline override; IdentifyDistinct ids are equal exactly for equal items and ranges are the caller's.",
     "differential between two paths of the library plus an independent id-equality check")
prop("C15", True,
     "property-based testing: enumeration over a 4-letter alphabet + proptest generation with unique markers against a patience-sorting (LIS) reference",
     "Counts the unique-common items reported Equal (raw and captured) and compares with the LIS of their positions computed independently; also rejects matching a unique item to a different position; coarse-hash items, different item types on the two sides, two windows of ONE buffer and inputs with more than 2^16 distinct items are covered.",
     "no deadline; reference LIS is the trusted base")
prop("C16", True,
     "property-based testing: proptest generation of word-level mutated line texts (str and [u8] incl. invalid UTF-8) x inline deadline variants (virtual clock) against a lossless re-split oracle and the plain expansion as reference",
     "For every op the inline expansion must mirror the plain expansion (tags, indices), segments must concatenate to the line, emphasis only in Delete/Insert changes of Replace ops and never over CR/LF, missing_newline consistent; no panic.",
     "line-break character = CR/LF; the 500 ms default variant is judged by deadline-independent invariants only; line diffs built by diff_lines (with newline_terminated overrides) and by diff_slices over library- and caller-split lines (blank lines = empty items)")
prop("C17", True,
     "property-based testing: enumeration of corner texts + proptest text generation against a pointer-level substring oracle and reconstruction round trip, differential remapper vs slice-wise expansion",
     "Remapped slices must be the substrings of the original texts at the right offsets, equal to the concatenated tokens, with the tags of slice-wise expansion, and must reconstruct both texts; the six one-call helpers reconstruct, return no empty slice and never panic for every algorithm.",
     "originals passed to the remapper are the ones diffed; caller-defined tokenizations (with empty tokens) and records compared by key are included")
prop("C18", True,
     "property-based testing: proptest generation (candidates derived from the word, cutoffs hit exactly) against a brute-force ranking with an independent LCS",
     "Result must equal the first n entries of the exhaustive ranking (ratio desc, candidate asc) of candidates with ratio >= cutoff; pre-filters may never drop a qualifying candidate.",
     "u32 scaling of ratios is injective for the generated sizes; f32 expression identical to the documented formula; byte strings with invalid UTF-8 use std's maximal-subpart decoding as the character reference")
prop("C19", True,
     "property-based testing with a comparison-counting element type: proptest generation of near-identical/periodic/reversed/unrelated families, full slices and windows of larger buffers; oracle = measured comparisons <= c*(N+M+1)*(D+1)",
     "Work is measured, not timed: PartialEq calls are counted and compared with the documented bound with calibrated constants (4 Myers, 6 Patience; measured maxima reported); runaway executions are aborted by the counter and reported as violations.",
     "constants calibrated with >= 2.5x head-room; decides 'within c x of O((N+M)D)', not the asymptotic statement")
prop("C20", True,
     "property-based testing / metamorphic: repeated and multi-threaded executions with fresh hasher seeds, order-preserving injective relabellings to other types, str vs [u8] differential",
     "Same inputs => same ops across 9 executions in-thread and 4 fresh threads (and 5 + 1 with a deadline that has already passed), and again after aborted and timed-out diffs on the same thread; relabelled inputs (u64, String, coarse-hash items, different item types per side, caller-defined DiffableStr tokens compared by key in a text diff) => same ops; str and [u8] text diffs agree for lines/words/chars.",
     "hasher seeds are not controllable: detection of a hash-order leak is probabilistic per input, near-certain over thousands")

def main():
    checks = []
    na = []
    for pid in sorted(P):
        p = P[pid]
        if not p["built"]:
            na.append({"property_id": pid, "reason": p["note"]})
            continue
        checks.append({
            "property_id": pid,
            "quick_cmd": f"bin/check {pid} quick",
            "thorough_cmd": f"bin/check {pid} thorough",
            "evidence_file": f"/verif/evidence/{pid}.json",
            "replay_cmd_template": f"target/release/vcheck --property {pid} --replay {{path}}",
            "engine": "vharness",
            "level_claimed": {"category": p["category"], "text": p["text"], "design_ref": f"DESIGN.md section 7 ({pid})"},
            "level_note": p["note"],
            "technique": p["technique"],
        })
    all_ids = [json.loads(l)["id"] for l in open(os.path.join(ROOT, "properties.jsonl"))]
    for pid in all_ids:
        if pid not in P:
            na.append({"property_id": pid, "reason": "check not built yet (work in progress in this session; the design in DESIGN.md section 7 applies the technique to it)"})
    commits = subprocess.run(["git", "-C", "/repo", "log", "--format=%h %s"], capture_output=True, text=True).stdout.splitlines()
    hook_commits = [c.split()[0] for c in commits if c.split(" ", 1)[1].startswith("verif hook")]
    m = {
        "version": 1,
        "setup_cmd": "bin/setup",
        "hooks": {
            "guard": "similar_verif",
            "enable": "RUSTFLAGS=\"--cfg similar_verif\" (set in harness/.cargo/config.toml and fuzz/.cargo/config.toml; similar is a path dependency on /repo so every check rebuilds the working tree)",
            "baseline_off_cmd": "cd /repo && cargo test --workspace --no-fail-fast --offline",
            "source_commits": hook_commits,
            "add_only": True,
        },
        "engines": [
            {"name": "vharness", "path": "/verif/harness", "serves_properties": [c["property_id"] for c in checks],
             "kind_free_text": "Rust harness (lib voracle + bin vcheck): proptest 1.11 strategies driven by a seeded runner, bounded-exhaustive enumerators, independent oracles, shrinking, replay and evidence writers"},
            {"name": "vfuzz", "path": "/verif/harness/fuzz", "serves_properties": [],
             "kind_free_text": "cargo-fuzz/libFuzzer targets that feed the fuzzer's bytes through the same proptest strategies (PassThrough RNG) into the same oracles; thorough tier only"},
        ],
        "checks": checks,
        "not_applicable": na,
        "notes": "All checks: exit 0 held / 1 VIOLATION line / 2 inconclusive. VERIF_SEED selects the PRNG stream (default 1). Known findings: /verif/KNOWN_FINDINGS.txt.",
    }
    json.dump(m, open(os.path.join(ROOT, "MANIFEST.json"), "w"), indent=1)
    print("checks:", len(checks), "not_applicable:", len(na))

if __name__ == "__main__":
    main()
